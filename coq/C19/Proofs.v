(* C19 — proofs: sorting, NodePool priority, first-decisive-template choice (sequential and under every
   interleaving of parallelizeUntil), the relaxation loop, and the oracles' reflections. *)
From Coq Require Import Permutation Ascii NArith.
From KV Require Import C19.Model C19.Spec Base.ReqProofs.
Open Scope Z_scope.

(* ------------------------------------------------------------------ insertion sort *)

Section SortProofs.
  Context {A : Type} (less : A -> A -> bool).
  Hypothesis less_asym : forall a b, less a b = true -> less b a = false.
  Hypothesis less_negtrans : forall a b c, less a c = true -> less a b = true \/ less b c = true.

  (* no element is [less] than an earlier one *)
  Fixpoint sorted (l : list A) : Prop :=
    match l with
    | [] => True
    | x :: t => (forall y, List.In y t -> less y x = false) /\ sorted t
    end.

  Lemma insert_perm x l : Permutation (insert less x l) (x :: l).
  Proof.
    induction l as [|y t IH]; simpl; [reflexivity|].
    destruct (less y x); [|reflexivity].
    rewrite IH. apply perm_swap.
  Qed.

  Lemma isort_perm l : Permutation (isort less l) l.
  Proof.
    induction l as [|x t IH]; simpl; [reflexivity|].
    rewrite insert_perm. constructor. exact IH.
  Qed.

  Lemma insert_sorted x l : sorted l -> sorted (insert less x l).
  Proof.
    induction l as [|y t IH]; simpl; intros Hs.
    - split; [intros ? []|exact I].
    - destruct Hs as [Hy Ht]. destruct (less y x) eqn:E; simpl.
      + split; [|apply IH, Ht].
        intros z Hz. apply (Permutation_in _ (insert_perm x t)) in Hz. destruct Hz as [<-|Hz].
        * apply less_asym, E.
        * apply Hy, Hz.
      + split; [|split; assumption].
        intros z [<-|Hz]; [exact E|].
        destruct (less z x) eqn:Ezx; [|reflexivity].
        destruct (less_negtrans z y x Ezx) as [H|H]; [rewrite (Hy z Hz) in H|rewrite E in H]; discriminate.
  Qed.

  Lemma isort_sorted l : sorted (isort less l).
  Proof. induction l as [|x t IH]; simpl; [exact I|apply insert_sorted, IH]. Qed.

  Lemma sorted_app l1 l2 : sorted (l1 ++ l2) ->
    forall a b, List.In a l1 -> List.In b l2 -> less b a = false.
  Proof.
    induction l1 as [|x t IH]; simpl; intros Hs a b Ha Hb; [destruct Ha|].
    destruct Hs as [Hx Ht]. destruct Ha as [<-|Ha].
    - apply Hx, in_or_app. right. exact Hb.
    - apply IH; assumption.
  Qed.
End SortProofs.

(* ------------------------------------------------------------------ Go string order *)

Lemma ascii_compare_refl a : Ascii.compare a a = Eq.
Proof. unfold Ascii.compare. apply N.compare_refl. Qed.

Lemma ascii_compare_eq a b : Ascii.compare a b = Eq -> a = b.
Proof. apply Ascii.compare_eq_iff. Qed.

Definition str_le (a b : string) : Prop := String.compare a b <> Datatypes.Gt.

Lemma str_le_trans a : forall b c, str_le a b -> str_le b c -> str_le a c.
Proof.
  unfold str_le. induction a as [|x a IH]; intros [|y b] [|z c]; simpl; try congruence.
  unfold Ascii.compare. intros H1 H2.
  destruct (N.compare_spec (N_of_ascii x) (N_of_ascii y)) as [Exy|Lxy|Gxy]; [| |congruence];
  destruct (N.compare_spec (N_of_ascii y) (N_of_ascii z)) as [Eyz|Lyz|Gyz]; [| |congruence| | |congruence].
  - rewrite Exy, Eyz, N.compare_refl. eapply IH; eassumption.
  - rewrite Exy. apply N.compare_lt_iff in Lyz. rewrite Lyz. congruence.
  - rewrite <- Eyz. apply N.compare_lt_iff in Lxy. rewrite Lxy. congruence.
  - assert (L : (N_of_ascii x < N_of_ascii z)%N) by (eapply N.lt_trans; eassumption).
    apply N.compare_lt_iff in L. rewrite L. congruence.
Qed.

Lemma str_gt_not_le a b : str_gt a b = true <-> ~ str_le a b.
Proof.
  unfold str_gt, str_le. destruct (String.compare a b); split; intros H; try congruence; try discriminate.
  - exfalso. apply H. discriminate.
  - exfalso. apply H. discriminate.
Qed.

Lemma str_gt_asym a b : str_gt a b = true -> str_gt b a = false.
Proof.
  unfold str_gt. rewrite (String.compare_antisym a b). destruct (String.compare b a); simpl; congruence.
Qed.

Lemma str_gt_negtrans a b c : str_gt a c = true -> str_gt a b = true \/ str_gt b c = true.
Proof.
  intros H. destruct (str_gt a b) eqn:E1; [left; reflexivity|]. destruct (str_gt b c) eqn:E2; [right; reflexivity|].
  exfalso. apply str_gt_not_le in H. apply H. apply str_le_trans with b.
  - unfold str_le. unfold str_gt in E1. destruct (String.compare a b); congruence.
  - unfold str_le. unfold str_gt in E2. destruct (String.compare b c); congruence.
Qed.

Lemma str_gt_irrefl a : str_gt a a = false.
Proof. destruct (str_gt a a) eqn:E; [|reflexivity]. pose proof (str_gt_asym _ _ E). congruence. Qed.

(* ------------------------------------------------------------------ OrderByWeight *)

Lemma outranks_reflect a b : outranks_b a b = true <-> outranks a b.
Proof.
  unfold outranks_b, outranks. rewrite orb_true_iff, andb_true_iff, Z.ltb_lt, Z.eqb_eq. tauto.
Qed.

Lemma pool_less_outranks a b : pool_less a b = outranks_b a b.
Proof.
  unfold pool_less, outranks_b. destruct (Z.eqb_spec (pweight a) (pweight b)) as [E|N].
  - rewrite E, Z.ltb_irrefl. reflexivity.
  - rewrite andb_false_l, orb_false_r. reflexivity.
Qed.

Lemma pool_less_asym a b : pool_less a b = true -> pool_less b a = false.
Proof.
  unfold pool_less. destruct (Z.eqb_spec (pweight a) (pweight b)) as [E|N].
  - rewrite <- E, Z.eqb_refl. apply str_gt_asym.
  - destruct (Z.eqb_spec (pweight b) (pweight a)); [congruence|].
    intros H. apply Z.ltb_lt in H. apply Z.ltb_ge. lia.
Qed.

Lemma pool_less_negtrans a b c : pool_less a c = true -> pool_less a b = true \/ pool_less b c = true.
Proof.
  unfold pool_less.
  destruct (Z.eqb_spec (pweight a) (pweight c)) as [Eac|Nac];
  destruct (Z.eqb_spec (pweight a) (pweight b)) as [Eab|Nab];
  destruct (Z.eqb_spec (pweight b) (pweight c)) as [Ebc|Nbc]; intros H; try lia.
  apply str_gt_negtrans, H.
Qed.

Lemma weight_sorted_iff l : weight_sorted l <-> sorted pool_less l.
Proof.
  induction l as [|x t IH]; simpl; [tauto|]. rewrite IH. split; intros [H1 H2]; split; try assumption; intros y Hy.
  - rewrite pool_less_outranks. destruct (outranks_b y x) eqn:E; [|reflexivity].
    exfalso. apply (H1 y Hy), outranks_reflect, E.
  - intros Ho. apply outranks_reflect in Ho. rewrite <- pool_less_outranks, (H1 y Hy) in Ho. discriminate.
Qed.

Lemma order_by_weight_perm l : Permutation (order_by_weight l) l.
Proof. apply isort_perm. Qed.

Lemma order_by_weight_sorted l : weight_sorted (order_by_weight l).
Proof. apply weight_sorted_iff, isort_sorted; [exact pool_less_asym|exact pool_less_negtrans]. Qed.

Lemma weight_sorted_reflect l : weight_sorted_b l = true <-> weight_sorted l.
Proof.
  induction l as [|x t IH]; simpl; [tauto|]. rewrite andb_true_iff, IH, forallb_forall.
  split; intros [H1 H2]; split; try assumption; intros y Hy.
  - intros Ho. apply outranks_reflect in Ho. specialize (H1 y Hy). rewrite Ho in H1. discriminate.
  - destruct (outranks_b y x) eqn:E; [|reflexivity]. exfalso. apply (H1 y Hy), outranks_reflect, E.
Qed.

Lemma outranks_irrefl p : ~ outranks p p.
Proof. unfold outranks. rewrite str_gt_irrefl. intros [H|[_ H]]; [lia|discriminate]. Qed.

(* in a priority-sorted list, whatever outranks the i-th pool sits before it *)
Lemma weight_sorted_before l : weight_sorted l -> forall i p q,
  nth_error l i = Some p -> List.In q l -> outranks q p -> exists j, (j < i)%nat /\ nth_error l j = Some q.
Proof.
  induction l as [|x t IH]; simpl; intros Hs i p q Hi Hq Ho; [destruct Hq|].
  destruct Hs as [Hx Ht]. destruct i as [|i]; simpl in Hi.
  - injection Hi as <-. destruct Hq as [<-|Hq]; [exfalso; eapply outranks_irrefl, Ho|].
    exfalso. exact (Hx q Hq Ho).
  - destruct Hq as [<-|Hq]; [exists O; split; [lia|reflexivity]|].
    destruct (IH Ht i p q Hi Hq Ho) as (j & Hj & Hn). exists (S j). split; [lia|exact Hn].
Qed.

(* ------------------------------------------------------------------ decide *)

Lemma decide_spec os : forall s,
  match decide s os with
  | Chosen i => exists j, i = (s + j)%nat /\ nth_error os j = Some OOk /\ forall k, (k < j)%nat -> nth_error os k = Some OErr
  | Blocked i => exists j, i = (s + j)%nat /\ nth_error os j = Some OReserved /\ forall k, (k < j)%nat -> nth_error os k = Some OErr
  | Exhausted => forall k o, nth_error os k = Some o -> o = OErr
  end.
Proof.
  induction os as [|o t IH]; intros s; simpl.
  - intros [|k] o; discriminate.
  - destruct o.
    + exists O. split; [lia|]. split; [reflexivity|]. intros k Hk; lia.
    + specialize (IH (S s)). destruct (decide (S s) t).
      * destruct IH as (j & -> & Hj & Hb). exists (S j). split; [lia|]. split; [exact Hj|].
        intros [|k] Hk; [reflexivity|]. apply Hb. lia.
      * destruct IH as (j & -> & Hj & Hb). exists (S j). split; [lia|]. split; [exact Hj|].
        intros [|k] Hk; [reflexivity|]. apply Hb. lia.
      * intros [|k] o Hk; [injection Hk as <-; reflexivity|]. eapply IH, Hk.
    + exists O. split; [lia|]. split; [reflexivity|]. intros k Hk; lia.
Qed.

(* the three outcomes of [decide] determine it *)
Lemma decide_unique os d :
  match d with
  | Chosen i => nth_error os i = Some OOk /\ forall k, (k < i)%nat -> nth_error os k = Some OErr
  | Blocked i => nth_error os i = Some OReserved /\ forall k, (k < i)%nat -> nth_error os k = Some OErr
  | Exhausted => forall k o, nth_error os k = Some o -> o = OErr
  end -> add_to_new os = d.
Proof.
  unfold add_to_new. intros H. pose proof (decide_spec os 0) as S.
  assert (first_unique : forall i j oi oj,
    nth_error os i = Some oi -> oi <> OErr -> (forall k, (k < i)%nat -> nth_error os k = Some OErr) ->
    nth_error os j = Some oj -> oj <> OErr -> (forall k, (k < j)%nat -> nth_error os k = Some OErr) -> i = j).
  { intros i j oi oj Hi Ni Bi Hj Nj Bj.
    destruct (Nat.lt_trichotomy i j) as [L|[E|L]]; [|exact E|].
    - rewrite (Bj i L) in Hi. congruence.
    - rewrite (Bi j L) in Hj. congruence. }
  destruct (decide 0 os) as [i|i|] eqn:E; simpl in S.
  - destruct S as (j & -> & Hj & Bj). simpl in *. destruct d as [i'|i'|].
    + destruct H as [Hi Bi]. f_equal. eapply first_unique; eauto; discriminate.
    + destruct H as [Hi Bi]. assert (j = i') by (eapply first_unique; eauto; discriminate). subst. congruence.
    + specialize (H j _ Hj). discriminate.
  - destruct S as (j & -> & Hj & Bj). simpl in *. destruct d as [i'|i'|].
    + destruct H as [Hi Bi]. assert (j = i') by (eapply first_unique; eauto; discriminate). subst. congruence.
    + destruct H as [Hi Bi]. f_equal. eapply first_unique; eauto; discriminate.
    + specialize (H j _ Hj). discriminate.
  - destruct d as [i'|i'|]; [| |reflexivity]; destruct H as [Hi _]; specialize (S _ _ Hi); discriminate.
Qed.

(* ------------------------------------------------------------------ weight priority of one attempt *)

(* The pool chosen by one addToNewNodeClaim over the templates in OrderByWeight order can host the pod
   and every pool that outranks it answered with a plain error.  [out] is any assignment of outcomes. *)
Lemma weight_priority_l (pools : list pool) (out : pool -> outcome) i :
  add_to_new (map out (order_by_weight pools)) = Chosen i ->
  exists p, nth_error (order_by_weight pools) i = Some p /\ List.In p pools /\ out p = OOk /\
            forall q, List.In q pools -> outranks q p -> out q = OErr.
Proof.
  intros H. pose proof (decide_spec (map out (order_by_weight pools)) 0) as S.
  unfold add_to_new in H. rewrite H in S. destruct S as (j & -> & Hj & Hb). simpl.
  rewrite nth_error_map in Hj. destruct (nth_error (order_by_weight pools) j) as [p|] eqn:Ep; [|discriminate].
  injection Hj as Hp. exists p. split; [reflexivity|]. split.
  - apply (Permutation_in _ (order_by_weight_perm pools)). eapply nth_error_In, Ep.
  - split; [exact Hp|]. intros q Hq Ho.
    apply (Permutation_in _ (Permutation_sym (order_by_weight_perm pools))) in Hq.
    destruct (weight_sorted_before _ (order_by_weight_sorted pools) j p q Ep Hq Ho) as (k & Hk & Hn).
    specialize (Hb k Hk). rewrite nth_error_map, Hn in Hb. simpl in Hb. congruence.
Qed.

Lemma blocked_priority_l (pools : list pool) (out : pool -> outcome) i :
  add_to_new (map out (order_by_weight pools)) = Blocked i ->
  exists p, nth_error (order_by_weight pools) i = Some p /\ List.In p pools /\ out p = OReserved /\
            forall q, List.In q pools -> outranks q p -> out q = OErr.
Proof.
  intros H. pose proof (decide_spec (map out (order_by_weight pools)) 0) as S.
  unfold add_to_new in H. rewrite H in S. destruct S as (j & -> & Hj & Hb). simpl.
  rewrite nth_error_map in Hj. destruct (nth_error (order_by_weight pools) j) as [p|] eqn:Ep; [|discriminate].
  injection Hj as Hp. exists p. split; [reflexivity|]. split.
  - apply (Permutation_in _ (order_by_weight_perm pools)). eapply nth_error_In, Ep.
  - split; [exact Hp|]. intros q Hq Ho.
    apply (Permutation_in _ (Permutation_sym (order_by_weight_perm pools))) in Hq.
    destruct (weight_sorted_before _ (order_by_weight_sorted pools) j p q Ep Hq Ho) as (k & Hk & Hn).
    specialize (Hb k Hk). rewrite nth_error_map, Hn in Hb. simpl in Hb. congruence.
Qed.

Lemma exhausted_all_err_l (pools : list pool) (out : pool -> outcome) :
  add_to_new (map out (order_by_weight pools)) = Exhausted -> forall p, List.In p pools -> out p = OErr.
Proof.
  intros H p Hp. pose proof (decide_spec (map out (order_by_weight pools)) 0) as S.
  unfold add_to_new in H. rewrite H in S.
  apply (Permutation_in _ (Permutation_sym (order_by_weight_perm pools))) in Hp.
  destruct (In_nth_error _ _ Hp) as [k Hk]. apply (S k). rewrite nth_error_map, Hk. reflexivity.
Qed.

(* a feasible pool is passed over only for a pool that outranks it or when a reserved-offering error
   of an outranking pool stops the search *)
Lemma feasible_pool_used_l (pools : list pool) (out : pool -> outcome) p :
  List.In p pools -> out p = OOk ->
  exists i q, nth_error (order_by_weight pools) i = Some q /\ out q <> OErr /\ ~ outranks p q /\
    (add_to_new (map out (order_by_weight pools)) = Chosen i \/ add_to_new (map out (order_by_weight pools)) = Blocked i).
Proof.
  intros Hp Ho. destruct (add_to_new (map out (order_by_weight pools))) as [i|i|] eqn:E.
  - destruct (weight_priority_l _ _ _ E) as (q & Hq & Hin & Hok & Hb). exists i, q. split; [exact Hq|].
    split; [congruence|]. split; [|left; reflexivity]. intros Hr. specialize (Hb p Hp Hr). congruence.
  - destruct (blocked_priority_l _ _ _ E) as (q & Hq & Hin & Hok & Hb). exists i, q. split; [exact Hq|].
    split; [congruence|]. split; [|right; reflexivity]. intros Hr. specialize (Hb p Hp Hr). congruence.
  - pose proof (exhausted_all_err_l _ _ E p Hp). congruence.
Qed.

(* ------------------------------------------------------------------ only Ready=True, dynamic, live pools are used *)

Lemma eligible_usable n : eligible n = true <-> usable n.
Proof.
  unfold eligible, usable. destruct n as [p r st del mg]; simpl. destruct r, st, del, mg; simpl; split; intros H;
    try discriminate; try (destruct H as (A & B & C & D); discriminate); auto.
Qed.

Lemma usable_reflect n : usable_b n = true <-> usable n.
Proof.
  unfold usable_b, usable. destruct n as [p r st del mg]; simpl. destruct r, st, del, mg; simpl; split; intros H;
    try discriminate; try (destruct H as (A & B & C & D); discriminate); auto.
Qed.

(* Whatever the outcomes: the pool that gets the pod is one whose Ready condition is True (not False, Unknown
   or missing), that is dynamic and not being deleted; and it is preferred only over usable pools it does not
   lose against. *)
Lemma ready_pools_only_l (nps : list npool) (out : pool -> outcome) i :
  add_to_new (map out (scheduler_pools nps)) = Chosen i ->
  exists n, List.In n nps /\ usable n /\ nth_error (scheduler_pools nps) i = Some (np_pool n) /\ out (np_pool n) = OOk /\
    forall m, List.In m nps -> usable m -> outranks (np_pool m) (np_pool n) -> out (np_pool m) = OErr.
Proof.
  unfold scheduler_pools. intros H. destruct (weight_priority_l _ _ _ H) as (p & Hp & Hin & Hok & Hhi).
  apply in_map_iff in Hin as (n & <- & Hn). apply filter_In in Hn as [Hn He].
  exists n. split; [exact Hn|]. split; [apply eligible_usable, He|]. split; [exact Hp|]. split; [exact Hok|].
  intros m Hm Hu Hr. apply Hhi; [|exact Hr]. apply in_map, filter_In. split; [exact Hm|apply eligible_usable, Hu].
Qed.

Lemma not_usable_never_in_templates (nps : list npool) p :
  List.In p (scheduler_pools nps) -> exists n, List.In n nps /\ np_pool n = p /\ usable n.
Proof.
  unfold scheduler_pools. intros H. apply (Permutation_in _ (order_by_weight_perm _)) in H.
  apply in_map_iff in H as (n & <- & Hn). apply filter_In in Hn as [Hn He]. exists n. split; [exact Hn|].
  split; [reflexivity|apply eligible_usable, He].
Qed.

Lemma placed_ready_reflect nps name : placed_ready_b nps name = true <-> placed_ready nps name.
Proof.
  unfold placed_ready_b, placed_ready. rewrite andb_true_iff, existsb_exists, forallb_forall. split.
  - intros [(n & Hn & E) H]. split; [exists n; split; [exact Hn|apply String.eqb_eq, E]|].
    intros m Hm Em. specialize (H m Hm). apply String.eqb_eq in Em. rewrite Em in H. simpl in H. apply usable_reflect, H.
  - intros [(n & Hn & E) H]. split; [exists n; split; [exact Hn|apply String.eqb_eq, E]|].
    intros m Hm. destruct (String.eqb_spec (pname (np_pool m)) name) as [Em|]; [|reflexivity]. simpl.
    apply usable_reflect, H; assumption.
Qed.

(* ------------------------------------------------------------------ parallelizeUntil: every interleaving *)

Lemma upd_length {A} n (x : A) l : length (upd n x l) = length l.
Proof. revert n; induction l as [|h t IH]; intros [|n]; simpl; auto. Qed.

Lemma nth_error_upd_same {A} n (x : A) l : (n < length l)%nat -> nth_error (upd n x l) n = Some x.
Proof. revert n; induction l as [|h t IH]; intros [|n]; simpl; intros H; try lia; [reflexivity|apply IH; lia]. Qed.

Lemma nth_error_upd_other {A} n m (x : A) l : n <> m -> nth_error (upd n x l) m = nth_error l m.
Proof.
  revert n m; induction l as [|h t IH]; intros [|n] [|m] H; simpl; try reflexivity; try congruence.
  apply IH. congruence.
Qed.

Definition nonerr (os : list outcome) (j : nat) : Prop := nth j os OErr <> OErr.

Record pinv (os : list outcome) (s : pst) : Prop := mkInv {
  inv_nxt : (nxt s <= length os)%nat;
  inv_busy : forall w i, nth_error (ws s) w = Some (Busy i) -> (i < nxt s)%nat;
  inv_cover : forall j, (j < nxt s)%nat -> nonerr os j ->
      (exists w, nth_error (ws s) w = Some (Busy j)) \/ (exists k, idx s = Some k /\ (k <= j)%nat);
  inv_idx : forall k, idx s = Some k ->
      (k < nxt s)%nat /\ nonerr os k /\ sel s = (if is_ok (nth k os OErr) then Some k else None);
  inv_none : idx s = None -> sel s = None;
  inv_dead : (exists w, nth_error (ws s) w = Some Dead) -> nxt s = length os \/ idx s <> None
}.

Lemma pinv_init os workers : pinv os (pinit workers (length os)).
Proof.
  assert (R : forall m w x, nth_error (repeat Idle m) w = Some x -> x = Idle).
  { intros m w x H. apply nth_error_In in H. eapply repeat_spec, H. }
  constructor; simpl.
  - lia.
  - intros w i H. apply R in H. discriminate.
  - intros j Hj. lia.
  - intros k H. discriminate.
  - reflexivity.
  - intros [w H]. apply R in H. discriminate.
Qed.

Lemma idx_gt_false i o : idx_gt i o = false -> exists k, o = Some k /\ (k <= i)%nat.
Proof. destruct o as [k|]; simpl; [|discriminate]. intros H. apply Nat.ltb_ge in H. eauto. Qed.

Lemma idx_gt_true i k : idx_gt i (Some k) = true -> (i < k)%nat.
Proof. simpl. apply Nat.ltb_lt. Qed.

(* completion of piece [i] by worker [w] with a decisive (non-plain-error) outcome *)
Lemma pinv_complete os s w i (sel' : option nat) :
  pinv os s -> nth_error (ws s) w = Some (Busy i) -> nonerr os i ->
  sel' = (if is_ok (nth i os OErr) then Some i else None) ->
  pinv os (if idx_gt i (idx s) then mkP (nxt s) (upd w Dead (ws s)) (Some i) sel'
           else mkP (nxt s) (upd w Dead (ws s)) (idx s) (sel s)).
Proof.
  intros [Hn Hb Hc Hi Hnone Hd] Ew Hne Hsel.
  assert (Hw : (w < length (ws s))%nat) by (apply nth_error_Some; congruence).
  destruct (idx_gt i (idx s)) eqn:G; constructor; simpl.
  - exact Hn.
  - intros w' i' H. destruct (Nat.eq_dec w w') as [<-|N].
    + rewrite nth_error_upd_same in H by exact Hw. discriminate.
    + rewrite nth_error_upd_other in H by exact N. eapply Hb, H.
  - intros j Hj Hnj. destruct (Hc j Hj Hnj) as [[w' H]|[k [Hk Hkj]]].
    + destruct (Nat.eq_dec w w') as [<-|N].
      * right. exists i. split; [reflexivity|]. rewrite Ew in H. injection H as ->. lia.
      * left. exists w'. rewrite nth_error_upd_other by exact N. exact H.
    + right. exists i. split; [reflexivity|]. rewrite Hk in G. apply idx_gt_true in G. lia.
  - intros k H. injection H as <-. split; [eapply Hb, Ew|]. split; [exact Hne|exact Hsel].
  - discriminate.
  - intros _. right. discriminate.
  - exact Hn.
  - intros w' i' H. destruct (Nat.eq_dec w w') as [<-|N].
    + rewrite nth_error_upd_same in H by exact Hw. discriminate.
    + rewrite nth_error_upd_other in H by exact N. eapply Hb, H.
  - intros j Hj Hnj. destruct (idx_gt_false _ _ G) as (k & Hk & Hki).
    destruct (Hc j Hj Hnj) as [[w' H]|R]; [|right; exact R].
    destruct (Nat.eq_dec w w') as [<-|N].
    + right. exists k. split; [exact Hk|]. rewrite Ew in H. injection H as ->. exact Hki.
    + left. exists w'. rewrite nth_error_upd_other by exact N. exact H.
  - exact Hi.
  - exact Hnone.
  - intros _. right. destruct (idx_gt_false _ _ G) as (k & Hk & _). congruence.
Qed.

Lemma pinv_step os s w : pinv os s -> pinv os (pstep os s w).
Proof.
  intros I. pose proof I as [Hn Hb Hc Hi Hnone Hd]. unfold pstep.
  destruct (nth_error (ws s) w) as [[|i|]|] eqn:Ew; try exact I.
  - assert (Hw : (w < length (ws s))%nat) by (apply nth_error_Some; congruence).
    destruct (Nat.ltb_spec (nxt s) (length os)) as [L|G]; constructor; simpl.
    + lia.
    + intros w' i H. destruct (Nat.eq_dec w w') as [<-|N].
      * rewrite nth_error_upd_same in H by exact Hw. injection H as <-. lia.
      * rewrite nth_error_upd_other in H by exact N. specialize (Hb _ _ H). lia.
    + intros j Hj Hnj. destruct (Nat.eq_dec j (nxt s)) as [->|Nj].
      * left. exists w. apply nth_error_upd_same, Hw.
      * destruct (Hc j ltac:(lia) Hnj) as [[w' H]|R]; [|right; exact R].
        left. exists w'. rewrite nth_error_upd_other; [exact H|]. intros <-. congruence.
    + intros k H. destruct (Hi k H) as (A & B & C). split; [lia|]. split; assumption.
    + exact Hnone.
    + intros [w' H]. destruct (Nat.eq_dec w w') as [<-|N].
      * rewrite nth_error_upd_same in H by exact Hw. discriminate.
      * rewrite nth_error_upd_other in H by exact N. destruct Hd as [E|E]; [eauto|lia|right; exact E].
    + exact Hn.
    + intros w' i H. destruct (Nat.eq_dec w w') as [<-|N].
      * rewrite nth_error_upd_same in H by exact Hw. discriminate.
      * rewrite nth_error_upd_other in H by exact N. eapply Hb, H.
    + intros j Hj Hnj. destruct (Hc j Hj Hnj) as [[w' H]|R]; [|right; exact R].
      left. exists w'. rewrite nth_error_upd_other; [exact H|]. intros <-. congruence.
    + exact Hi.
    + exact Hnone.
    + intros _. left. lia.
  - assert (Hw : (w < length (ws s))%nat) by (apply nth_error_Some; congruence).
    destruct (nth i os OErr) eqn:Eo.
    + apply (pinv_complete os s w i (Some i) I Ew); [unfold nonerr; congruence|rewrite Eo; reflexivity].
    + constructor; simpl.
      * exact Hn.
      * intros w' i' H. destruct (Nat.eq_dec w w') as [<-|N].
        -- rewrite nth_error_upd_same in H by exact Hw. discriminate.
        -- rewrite nth_error_upd_other in H by exact N. eapply Hb, H.
      * intros j Hj Hnj. destruct (Hc j Hj Hnj) as [[w' H]|R]; [|right; exact R].
        left. exists w'. rewrite nth_error_upd_other; [exact H|]. intros <-.
        rewrite Ew in H. injection H as ->. apply Hnj, Eo.
      * exact Hi.
      * exact Hnone.
      * intros [w' H]. destruct (Nat.eq_dec w w') as [<-|N].
        -- rewrite nth_error_upd_same in H by exact Hw. discriminate.
        -- rewrite nth_error_upd_other in H by exact N. apply Hd. eauto.
    + apply (pinv_complete os s w i None I Ew); [unfold nonerr; congruence|rewrite Eo; reflexivity].
Qed.

Lemma pinv_run os workers sched : pinv os (prun os workers sched).
Proof.
  unfold prun. generalize (pinv_init os workers). generalize (pinit workers (length os)).
  induction sched as [|w t IH]; intros s I; simpl; [exact I|]. apply IH, pinv_step, I.
Qed.

Lemma pstep_len os s w : length (ws (pstep os s w)) = length (ws s).
Proof.
  unfold pstep. destruct (nth_error (ws s) w) as [[|i|]|]; try reflexivity.
  - destruct (_ <? _)%nat; simpl; apply upd_length.
  - destruct (nth i os OErr); try destruct (idx_gt i (idx s)); simpl; apply upd_length.
Qed.

Lemma prun_len os workers sched : length (ws (prun os workers sched)) = Nat.min workers (length os).
Proof.
  unfold prun. assert (H : length (ws (pinit workers (length os))) = Nat.min workers (length os))
    by (simpl; apply repeat_length).
  revert H. generalize (pinit workers (length os)).
  induction sched as [|w t IH]; intros s H; simpl; [exact H|]. apply IH. rewrite pstep_len. exact H.
Qed.

(* Whatever the number of workers and however their moves interleave, once all workers have returned
   the shared variables hold exactly what a single worker computes: the lowest template index whose
   evaluation is not a plain error decides. *)
Lemma parallel_lowest_index_wins_l os workers sched : (1 <= workers)%nat ->
  quiescent (prun os workers sched) = true -> pdecision (prun os workers sched) = add_to_new os.
Proof.
  intros Hw Hq. pose proof (pinv_run os workers sched) as [Hn Hb Hc Hi Hnone Hd].
  pose proof (prun_len os workers sched) as Hlen.
  set (s := prun os workers sched) in *. unfold quiescent in Hq. rewrite forallb_forall in Hq.
  assert (NoBusy : forall w j, nth_error (ws s) w <> Some (Busy j)).
  { intros w j H. apply nth_error_In in H. apply Hq in H. discriminate. }
  symmetry. apply decide_unique. unfold pdecision.
  destruct (idx s) as [k|] eqn:Ek.
  - destruct (Hi k eq_refl) as (Hk & Hne & Hsel). rewrite Hsel.
    assert (Before : forall j, (j < k)%nat -> nth_error os j = Some OErr).
    { intros j Hj. rewrite (nth_error_nth' os OErr) by lia. f_equal.
      destruct (nth j os OErr) eqn:Ej; try reflexivity;
      (destruct (Hc j ltac:(lia) ltac:(unfold nonerr; congruence)) as [[w H]|[k' [Hk' Hle]]];
       [exfalso; eapply NoBusy, H|injection Hk' as E'; lia]). }
    unfold nonerr in Hne. pose proof (nth_error_nth' os OErr (n := k) ltac:(lia)) as Hnk.
    destruct (nth k os OErr); simpl; [split; assumption|congruence|split; assumption].
  - rewrite (Hnone eq_refl). intros k o Hk.
    destruct (ws s) as [|x t] eqn:Ews.
    + simpl in Hlen. assert (length os = 0)%nat by lia. destruct os; [destruct k; discriminate|discriminate].
    + assert (Hx : x = Dead). { specialize (Hq x (or_introl eq_refl)). destruct x; try discriminate. reflexivity. }
      destruct Hd as [E|E]; [exists O; rewrite Hx; reflexivity| |congruence].
      assert (Hkl : (k < length os)%nat) by (apply nth_error_Some; congruence).
      destruct o; try reflexivity;
      (destruct (Hc k ltac:(lia) ltac:(unfold nonerr; rewrite (nth_error_nth _ _ _ Hk); discriminate)) as [[w H]|[k' [Hk' _]]];
       [exfalso; eapply NoBusy, H|discriminate]).
Qed.

(* ------------------------------------------------------------------ the relaxation loop *)

Lemma try_schedule_spec levels : forall l0,
  match try_schedule l0 levels with
  | Placed l i => exists k, l = (l0 + k)%nat /\
      (exists os, nth_error levels k = Some os /\ add_to_new os = Chosen i) /\
      (forall k' os, (k' < k)%nat -> nth_error levels k' = Some os -> add_to_new os = Exhausted)
  | Deferred l i => exists k, l = (l0 + k)%nat /\
      (exists os, nth_error levels k = Some os /\ add_to_new os = Blocked i) /\
      (forall k' os, (k' < k)%nat -> nth_error levels k' = Some os -> add_to_new os = Exhausted)
  | Failed => forall k os, nth_error levels k = Some os -> add_to_new os = Exhausted
  end.
Proof.
  induction levels as [|os t IH]; intros l0; simpl.
  - intros [|k] os; discriminate.
  - destruct (add_to_new os) as [i|i|] eqn:E.
    + exists O. split; [lia|]. split; [exists os; split; [reflexivity|exact E]|]. intros k' os' Hk; lia.
    + exists O. split; [lia|]. split; [exists os; split; [reflexivity|exact E]|]. intros k' os' Hk; lia.
    + specialize (IH (S l0)). destruct (try_schedule (S l0) t) as [l i|l i|].
      * destruct IH as (k & -> & Hos & Hb). exists (S k). split; [lia|]. split; [exact Hos|].
        intros [|k'] os' Hk Hn; [injection Hn as <-; exact E|]. eapply Hb; [|exact Hn]. lia.
      * destruct IH as (k & -> & Hos & Hb). exists (S k). split; [lia|]. split; [exact Hos|].
        intros [|k'] os' Hk Hn; [injection Hn as <-; exact E|]. eapply Hb; [|exact Hn]. lia.
      * intros [|k] os' Hn; [injection Hn as <-; exact E|]. eapply IH, Hn.
Qed.

(* The pod is tried at successive relaxation levels; [outs] gives, per level, what each pool answers.
   Where the pod gets its new node, the per-level priority holds and nothing was feasible earlier. *)
Lemma weight_priority_levels_l (pools : list pool) (outs : list (pool -> outcome)) l i :
  try_schedule 0 (map (fun out => map out (order_by_weight pools)) outs) = Placed l i ->
  exists out p, nth_error outs l = Some out /\ nth_error (order_by_weight pools) i = Some p /\ List.In p pools /\
    out p = OOk /\ (forall q, List.In q pools -> outranks q p -> out q = OErr) /\
    (forall l' out', (l' < l)%nat -> nth_error outs l' = Some out' -> forall q, List.In q pools -> out' q = OErr).
Proof.
  intros H. pose proof (try_schedule_spec (map (fun out => map out (order_by_weight pools)) outs) 0) as S.
  rewrite H in S. destruct S as (k & -> & (os & Hos & Hc) & Hb). simpl.
  rewrite nth_error_map in Hos. destruct (nth_error outs k) as [out|] eqn:Eo; [|discriminate].
  injection Hos as <-. destruct (weight_priority_l _ _ _ Hc) as (p & Hp & Hin & Hok & Hhi).
  exists out, p. repeat split; try assumption.
  intros l' out' Hl Hn q Hq. eapply exhausted_all_err_l; [|exact Hq].
  eapply Hb; [exact Hl|]. rewrite nth_error_map, Hn. reflexivity.
Qed.

(* Strict reading: no outranking pool can host the pod at ANY level.  It holds when relaxing the pod
   never makes a pool feasible that was not feasible for the unrelaxed pod ... *)
Definition relaxation_neutral (pools : list pool) (outs : list (pool -> outcome)) : Prop :=
  forall out0 l out q, nth_error outs 0 = Some out0 -> nth_error outs l = Some out ->
    List.In q pools -> out q = OOk -> out0 q = OOk.

Lemma weight_priority_any_relaxation_partial_l (pools : list pool) (outs : list (pool -> outcome)) l i :
  relaxation_neutral pools outs ->
  try_schedule 0 (map (fun out => map out (order_by_weight pools)) outs) = Placed l i ->
  exists p, nth_error (order_by_weight pools) i = Some p /\
    forall l' out' q, nth_error outs l' = Some out' -> List.In q pools -> outranks q p -> out' q <> OOk.
Proof.
  intros Hneutral H. destruct (weight_priority_levels_l _ _ _ _ H) as (out & p & Ho & Hp & Hin & Hok & Hhi & Hearlier).
  exists p. split; [exact Hp|]. intros l' out' q Hn Hq Hr Hq_ok.
  destruct l as [|l].
  - (* placed at level 0: an outranking pool feasible at some level is feasible at level 0 *)
    pose proof (Hneutral out l' out' q Ho Hn Hq Hq_ok) as H0. rewrite (Hhi q Hq Hr) in H0. discriminate.
  - (* placed later: level 0 was exhausted, so by neutrality nothing is ever feasible - but p is *)
    destruct (nth_error outs 0) as [out0|] eqn:E0.
    + pose proof (Hneutral out0 (S l) out p E0 Ho Hin Hok) as H0.
      rewrite (Hearlier 0%nat out0 ltac:(lia) E0 p Hin) in H0. discriminate.
    + destruct outs; discriminate.
Qed.

(* ... and fails in general: two pools, the lighter one is the only one matching the pod's preference. *)
Lemma weight_priority_any_relaxation_refuted_l :
  exists (pools : list pool) (outs : list (pool -> outcome)) l i p q out',
    try_schedule 0 (map (fun out => map out (order_by_weight pools)) outs) = Placed l i /\
    nth_error (order_by_weight pools) i = Some p /\ List.In q pools /\ outranks q p /\
    List.In out' outs /\ out' q = OOk.
Proof.
  set (high := mkPool "high" 100). set (low := mkPool "low" 1).
  exists [low; high],
         [(fun p => if String.eqb (pname p) "low" then OOk else OErr); (fun _ => OOk)],
         0%nat, 1%nat, low, high, (fun _ => OOk).
  vm_compute. repeat split; try reflexivity; auto.
Qed.

(* ------------------------------------------------------------------ prices *)

Lemma price_lt_asym a b : price_lt a b = true -> price_lt b a = false.
Proof. destruct a, b; simpl; try reflexivity; try discriminate. intros H. apply Z.ltb_lt in H. apply Z.ltb_ge. lia. Qed.

Lemma price_lt_negtrans a b c : price_lt a c = true -> price_lt a b = true \/ price_lt b c = true.
Proof.
  destruct a as [x|], b as [y|], c as [z|]; simpl; intros H; try discriminate; auto.
  apply Z.ltb_lt in H. destruct (Z.ltb_spec x y); [left; reflexivity|right; apply Z.ltb_lt; lia].
Qed.

Lemma price_total a b : price_lt a b = false -> price_lt b a = false -> a = b.
Proof.
  destruct a as [x|], b as [y|]; simpl; intros H1 H2; try discriminate; try reflexivity.
  apply Z.ltb_ge in H1, H2. f_equal. lia.
Qed.

Section Price.
  Context {A : Type} (key : A -> price).
  Let less := fun a b => price_lt (key a) (key b).

  Lemma less_asym a b : less a b = true -> less b a = false.
  Proof. apply price_lt_asym. Qed.
  Lemma less_negtrans a b c : less a c = true -> less a b = true \/ less b c = true.
  Proof. apply price_lt_negtrans. Qed.

  Lemma price_sorted_iff l : price_sorted key l <-> sorted less l.
  Proof. induction l as [|x t IH]; simpl; [tauto|]. rewrite IH. tauto. Qed.

  Lemma isort_price_sorted l : price_sorted key (isort less l).
  Proof. apply price_sorted_iff, isort_sorted; [exact less_asym|exact less_negtrans]. Qed.

  (* a prefix of a price-sorted list never leaves out something cheaper than what it keeps *)
  Lemma sorted_prefix_cheapest l n : price_sorted key l -> cheapest key (lo_slice l n) (lo_rest l n).
  Proof.
    intros Hs k d Hk Hd. unfold lo_slice, lo_rest in *. destruct (n <=? 0); [destruct Hk|].
    apply price_sorted_iff in Hs. rewrite <- (firstn_skipn (Z.to_nat n) l) in Hs.
    exact (sorted_app less _ _ Hs k d Hk Hd).
  Qed.

  Lemma cheapest_reflect kept dropped : cheapest_b key kept dropped = true <-> cheapest key kept dropped.
  Proof.
    unfold cheapest_b, cheapest. rewrite forallb_forall. split.
    - intros H k d Hk Hd. specialize (H k Hk). rewrite forallb_forall in H. specialize (H d Hd).
      destruct (price_lt (key d) (key k)); [discriminate|reflexivity].
    - intros H k Hk. apply forallb_forall. intros d Hd. rewrite (H k d Hk Hd). reflexivity.
  Qed.
End Price.

(* sorted price lists that are permutations of each other are equal: the key sequence of OrderByPrice's
   result does not depend on how the sort breaks ties *)
Fixpoint psorted (l : list price) : Prop :=
  match l with
  | [] => True
  | x :: t => (forall y, List.In y t -> price_lt y x = false) /\ psorted t
  end.

Lemma psorted_perm_eq l1 : forall l2, psorted l1 -> psorted l2 -> Permutation l1 l2 -> l1 = l2.
Proof.
  induction l1 as [|x t IH]; intros l2 H1 H2 P.
  - apply Permutation_nil in P. congruence.
  - destruct l2 as [|y u]; [apply Permutation_sym, Permutation_nil in P; discriminate|].
    destruct H1 as [Hx Ht], H2 as [Hy Hu].
    assert (E : x = y).
    { assert (Iy : List.In y (x :: t)) by (eapply Permutation_in; [apply Permutation_sym, P|left; reflexivity]).
      assert (Ix : List.In x (y :: u)) by (eapply Permutation_in; [exact P|left; reflexivity]).
      destruct Iy as [E|Iy]; [exact E|]. destruct Ix as [E|Ix]; [congruence|].
      apply price_total; [apply Hy, Ix|apply Hx, Iy]. }
    subst y. f_equal. apply IH; try assumption. eapply Permutation_cons_inv, P.
Qed.

Lemma price_sorted_map {A} (key : A -> price) l : price_sorted key l -> psorted (map key l).
Proof.
  induction l as [|x t IH]; simpl; [trivial|]. intros [Hx Ht]. split; [|apply IH, Ht].
  intros y Hy. apply in_map_iff in Hy as (z & <- & Hz). apply Hx, Hz.
Qed.

Lemma sorted_keys_unique_l {A} (key : A -> price) l o1 o2 :
  Permutation o1 l -> price_sorted key o1 -> Permutation o2 l -> price_sorted key o2 -> map key o1 = map key o2.
Proof.
  intros P1 S1 P2 S2. apply psorted_perm_eq; try (apply price_sorted_map; assumption).
  apply Permutation_map. rewrite P1, P2. reflexivity.
Qed.

Lemma order_by_price_perm allow rq its : Permutation (order_by_price allow rq its) its.
Proof. apply isort_perm. Qed.

Lemma order_by_price_sorted allow rq its : price_sorted (price_key allow rq) (order_by_price allow rq its).
Proof. apply (isort_price_sorted (price_key allow rq)). Qed.

(* the key is the cheapest compatible available offering *)
Definition off_ok (allow : list string) (rq : reqs) (o : offering) : bool :=
  oavail o && compatible allow rq (oreqs o).
Definition key_step (allow : list string) (rq : reqs) (acc : price) (o : offering) : price :=
  if off_ok allow rq o && price_lt (Fin (oprice o)) acc then Fin (oprice o) else acc.

Lemma key_fold_spec allow rq l : forall acc,
  match fold_left (key_step allow rq) l acc with
  | Fin p => ((exists o, List.In o l /\ off_ok allow rq o = true /\ oprice o = p) \/ acc = Fin p) /\
             (forall o, List.In o l -> off_ok allow rq o = true -> p <= oprice o) /\
             (match acc with Fin q => p <= q | Inf => True end)
  | Inf => acc = Inf /\ forall o, List.In o l -> off_ok allow rq o = false
  end.
Proof.
  induction l as [|o t IH]; intros acc; simpl.
  - destruct acc as [q|]; [split; [right; reflexivity|split; [intros ? []|lia]]|split; [reflexivity|intros ? []]].
  - unfold key_step at 2. destruct (off_ok allow rq o) eqn:Eo; cbn [andb].
    + destruct (price_lt (Fin (oprice o)) acc) eqn:El.
      * specialize (IH (Fin (oprice o))).
        destruct (fold_left (key_step allow rq) t (Fin (oprice o))) as [p|]; [|destruct IH; discriminate].
        destruct IH as (Hw & Hall & Hle). split; [|split].
        -- left. destruct Hw as [(o' & Ho' & Hk & Hp)|E]; [exists o'; auto|].
           injection E as <-. exists o. auto.
        -- intros o' [<-|Ho'] Hk; [exact Hle|apply Hall; assumption].
        -- destruct acc as [q|]; [|exact I]. simpl in El. apply Z.ltb_lt in El. lia.
      * specialize (IH acc). destruct acc as [q|]; [|discriminate].
        simpl in El. apply Z.ltb_ge in El.
        destruct (fold_left (key_step allow rq) t (Fin q)) as [p|]; [|destruct IH; discriminate].
        destruct IH as (Hw & Hall & Hle). split; [|split].
        -- destruct Hw as [(o' & Ho' & Hk & Hp)|E]; [left; exists o'; auto|right; exact E].
        -- intros o' [<-|Ho'] Hk; [lia|apply Hall; assumption].
        -- exact Hle.
    + specialize (IH acc). destruct (fold_left (key_step allow rq) t acc) as [p|].
      * destruct IH as (Hw & Hall & Hle). split; [|split].
        -- destruct Hw as [(o' & Ho' & Hk & Hp)|E]; [left; exists o'; auto|right; exact E].
        -- intros o' [<-|Ho'] Hk; [congruence|apply Hall; assumption].
        -- exact Hle.
      * destruct IH as [E Hall]. split; [exact E|]. intros o' [<-|Ho']; [exact Eo|apply Hall, Ho'].
Qed.

Lemma price_key_spec allow rq it :
  match price_key allow rq it with
  | Fin p => (exists o, List.In o (ioffs it) /\ off_ok allow rq o = true /\ oprice o = p) /\
             (forall o, List.In o (ioffs it) -> off_ok allow rq o = true -> p <= oprice o)
  | Inf => forall o, List.In o (ioffs it) -> off_ok allow rq o = false
  end.
Proof.
  pose proof (key_fold_spec allow rq (ioffs it) Inf) as G.
  change (price_key allow rq it) with (fold_left (key_step allow rq) (ioffs it) Inf).
  destruct (fold_left (key_step allow rq) (ioffs it) Inf) as [p|].
  - destruct G as (Hw & Hall & _). split; [|exact Hall]. destruct Hw as [H|H]; [exact H|discriminate].
  - destruct G as [_ H]. exact H.
Qed.

(* ------------------------------------------------------------------ SatisfiesMinValues *)

Lemma NoDup_dedup l : NoDup (dedup l).
Proof.
  induction l as [|x t IH]; simpl; [constructor|].
  destruct (mem x t) eqn:E; [exact IH|]. constructor; [|exact IH].
  intros H. apply mem_In in H. rewrite mem_dedup in H. congruence.
Qed.

Lemma NoDup_app_disjoint {A} (a c : list A) :
  NoDup a -> NoDup c -> (forall x, List.In x a -> ~ List.In x c) -> NoDup (a ++ c).
Proof.
  induction a as [|x t IH]; simpl; intros Ha Hc Hd; [exact Hc|].
  inversion Ha as [|? ? Hx Ht]; subst. constructor.
  - intros H. apply in_app_or in H as [H|H]; [exact (Hx H)|]. exact (Hd x (or_introl eq_refl) H).
  - apply IH; [exact Ht|exact Hc|]. intros y Hy. apply Hd. right. exact Hy.
Qed.

Lemma NoDup_sunion a b : NoDup a -> NoDup b -> NoDup (sunion a b).
Proof.
  intros Ha Hb. unfold sunion. apply NoDup_app_disjoint; [exact Ha|apply NoDup_filter, Hb|].
  intros x Hx Hf. apply filter_In in Hf as [_ Hf]. apply mem_In in Hx. rewrite Hx in Hf. discriminate.
Qed.

Definition it_vals (k : string) (it : itype) : list string := vals (get (ireqs it) k).

Lemma values_for_fold k pre : forall acc, NoDup acc ->
  NoDup (fold_left (fun acc it => sunion acc (dedup (it_vals k it))) pre acc) /\
  forall v, mem v (fold_left (fun acc it => sunion acc (dedup (it_vals k it))) pre acc)
            = mem v acc || existsb (fun it => mem v (it_vals k it)) pre.
Proof.
  induction pre as [|it t IH]; intros acc Ha; simpl.
  - split; [exact Ha|]. intros v. rewrite orb_false_r. reflexivity.
  - destruct (IH (sunion acc (dedup (it_vals k it))) (NoDup_sunion _ _ Ha (NoDup_dedup _))) as [N M].
    split; [exact N|]. intros v. rewrite M, mem_sunion, mem_dedup, orb_assoc. reflexivity.
Qed.

Lemma values_for_NoDup k pre : NoDup (values_for k pre).
Proof. apply (values_for_fold k pre []). constructor. Qed.

Lemma values_for_mem k pre v : mem v (values_for k pre) = existsb (fun it => mem v (it_vals k it)) pre.
Proof. apply (values_for_fold k pre []). constructor. Qed.

Lemma mem_flat_map {A} (f : A -> list string) l v : mem v (flat_map f l) = existsb (fun x => mem v (f x)) l.
Proof. induction l as [|x t IH]; simpl; [reflexivity|]. rewrite mem_app, IH. reflexivity. Qed.

Lemma distinct_values_mem k its v : mem v (distinct_values k its) = existsb (fun it => mem v (it_vals k it)) its.
Proof. unfold distinct_values. rewrite mem_dedup. apply mem_flat_map. Qed.

Lemma same_members_length a b : NoDup a -> NoDup b -> (forall v, mem v a = mem v b) -> length a = length b.
Proof.
  intros Ha Hb H. apply Permutation_length, NoDup_Permutation; try assumption.
  intros v. rewrite <- !mem_In, H. tauto.
Qed.

(* the incremental union of the code counts exactly the distinct values *)
Lemma values_for_count k its : length (values_for k its) = length (distinct_values k its).
Proof.
  apply same_members_length; [apply values_for_NoDup|apply NoDup_dedup|].
  intros v. rewrite values_for_mem, distinct_values_mem. reflexivity.
Qed.

Lemma values_for_mono k pre rest : (length (values_for k pre) <= length (values_for k (pre ++ rest)))%nat.
Proof.
  apply NoDup_incl_length; [apply values_for_NoDup|]. intros v Hv. apply mem_In. apply mem_In in Hv.
  rewrite values_for_mem in *. rewrite existsb_app, Hv. reflexivity.
Qed.

Lemma violated_nil rq pre :
  violated rq pre = [] <-> forall k m, List.In (k, m) (min_keys rq) -> m <= Z.of_nat (length (values_for k pre)).
Proof.
  unfold violated. induction (min_keys rq) as [|[k m] t IH]; simpl.
  - split; [intros _ ? ? []|reflexivity].
  - destruct (Z.ltb_spec (Z.of_nat (length (values_for k pre))) m) as [L|G]; simpl.
    + split; [discriminate|]. intros H. specialize (H k m (or_introl eq_refl)). lia.
    + rewrite IH. split.
      * intros H k' m' [E|Hin]; [injection E as <- <-; exact G|apply H, Hin].
      * intros H k' m' Hin. apply H. right. exact Hin.
Qed.

Definition met_upto (rq : reqs) (its : list itype) : Prop :=
  forall k m, List.In (k, m) (min_keys rq) -> m <= Z.of_nat (length (values_for k its)).

Lemma met_upto_iff rq its : met_upto rq its <-> min_values_met rq its.
Proof. unfold met_upto, min_values_met. split; intros H k m Hin; specialize (H k m Hin); rewrite values_for_count in *; exact H. Qed.

Lemma smv_loop_spec rq rest : forall pre,
  snd (smv_loop rq pre rest) = false <-> met_upto rq (pre ++ rest).
Proof.
  induction rest as [|it t IH]; intros pre; simpl.
  - rewrite app_nil_r. destruct (violated rq pre) as [|x v] eqn:E; simpl.
    + split; [intros _; exact (proj1 (violated_nil rq pre) E)|reflexivity].
    + split; [discriminate|]. intros H. apply (proj2 (violated_nil rq pre)) in H. congruence.
  - replace (pre ++ it :: t) with ((pre ++ [it]) ++ t) by (rewrite <- app_assoc; reflexivity).
    destruct (violated rq (pre ++ [it])) as [|x v] eqn:E; simpl.
    + split; [|reflexivity]. intros _ k m Hin.
      pose proof (proj1 (violated_nil rq (pre ++ [it])) E k m Hin) as H.
      pose proof (values_for_mono k (pre ++ [it]) t). lia.
    + apply IH.
Qed.

(* SatisfiesMinValues reports no error exactly when every minValues floor is met by the distinct
   values of the given instance types - provided there is at least one instance type *)
Lemma smv_err_iff rq its : has_min_values rq = true -> its <> [] ->
  (smv_err rq its = false <-> min_values_met rq its).
Proof.
  intros Hm Hne. unfold smv_err, satisfies_min_values. rewrite Hm.
  destruct its as [|it t]; [congruence|]. rewrite (smv_loop_spec rq (it :: t) []). simpl. apply met_upto_iff.
Qed.

(* ... and on an empty list it reports no error whatever the floors are *)
Lemma smv_empty_no_error rq : smv_err rq [] = false.
Proof. unfold smv_err, satisfies_min_values. destruct (has_min_values rq); reflexivity. Qed.

Lemma min_values_met_reflect rq its : min_values_met_b rq its = true <-> min_values_met rq its.
Proof.
  unfold min_values_met_b, min_values_met. rewrite forallb_forall. split.
  - intros H k m Hin. specialize (H (k, m) Hin). simpl in H. apply Z.leb_le, H.
  - intros H [k m] Hin. simpl. apply Z.leb_le, H, Hin.
Qed.

(* ------------------------------------------------------------------ Truncate *)

Lemma truncate_from_spec be rq sorted n res :
  truncate_from be rq sorted n = (res, true) ->
  res = lo_slice sorted n /\
  (has_min_values rq = true -> be = false -> res <> [] -> min_values_met rq res).
Proof.
  unfold truncate_from.
  destruct (has_min_values rq && negb be && smv_err rq (lo_slice sorted n)) eqn:E; [discriminate|].
  intros H. injection H as <-. split; [reflexivity|]. intros Hm -> Hne. rewrite Hm in E. simpl in E.
  apply smv_err_iff; assumption.
Qed.

(* Truncate over any admissible result of the sort: what is kept is a cheapest prefix *)
Lemma truncation_keeps_cheapest_l allow be rq (its sorted : list itype) n res :
  Permutation sorted its -> price_sorted (price_key allow rq) sorted ->
  truncate_from be rq sorted n = (res, true) ->
  Permutation (res ++ lo_rest sorted n) its /\ cheapest (price_key allow rq) res (lo_rest sorted n).
Proof.
  intros P S H. destruct (truncate_from_spec _ _ _ _ _ H) as [-> _]. split.
  - rewrite <- P. unfold lo_slice, lo_rest. destruct (n <=? 0); [reflexivity|]. rewrite firstn_skipn. reflexivity.
  - apply sorted_prefix_cheapest, S.
Qed.

Lemma truncate_model_l allow be rq its n res :
  truncate allow be rq its n = (res, true) ->
  Permutation (res ++ lo_rest (order_by_price allow rq its) n) its /\
  cheapest (price_key allow rq) res (lo_rest (order_by_price allow rq its) n) /\
  (has_min_values rq = true -> be = false -> res <> [] -> min_values_met rq res).
Proof.
  intros H. unfold truncate in H.
  destruct (truncation_keeps_cheapest_l allow be rq its _ n res (order_by_price_perm allow rq its)
              (order_by_price_sorted allow rq its) H) as [P C].
  split; [exact P|]. split; [exact C|]. apply (truncate_from_spec _ _ _ _ _ H).
Qed.

(* the floor is not enforced when the cut leaves nothing (maxItems <= 0) *)
Lemma truncate_min_values_empty_refuted_l :
  exists rq sorted n, has_min_values rq = true /\ truncate_from false rq sorted n = ([], true) /\ ~ min_values_met rq [].
Proof.
  exists [("k"%string, mkReq true [] None None (Some 1))], [mkIT "a" [] []], 0.
  split; [reflexivity|]. split; [reflexivity|].
  intros H. specialize (H "k"%string 1 (or_introl eq_refl)). vm_compute in H. apply H. reflexivity.
Qed.

(* ------------------------------------------------------------------ ToNodeClaim *)

Lemma to_nodeclaim_admits rq kept v :
  has (to_nodeclaim_req rq kept) v = mem v (map iname kept) && has (get rq it_label) v.
Proof.
  unfold to_nodeclaim_req.
  change (add rq [(it_label, new_req In (minv (get rq it_label)) (map iname kept))])
    with (add1 rq (it_label, new_req In (minv (get rq it_label)) (map iname kept))).
  rewrite get_add1, String.eqb_refl. f_equal.
  unfold has, new_req. simpl. rewrite mem_dedup, andb_true_r. reflexivity.
Qed.

(* ------------------------------------------------------------------ reflections of the Solve oracles *)

Lemma is_ok_iff o : is_ok o = true <-> o = OOk.
Proof. destruct o; simpl; split; congruence. Qed.
Lemma is_err_iff o : is_err o = true <-> o = OErr.
Proof. destruct o; simpl; split; congruence. Qed.
Lemma is_reserved_iff o : is_reserved o = true <-> o = OReserved.
Proof. destruct o; simpl; split; congruence. Qed.

Lemma higher_infeasible_reflect lv p : higher_infeasible_b lv p = true <-> higher_infeasible lv p.
Proof.
  unfold higher_infeasible_b, higher_infeasible. rewrite forallb_forall. split.
  - intros H q o Hin Hr. specialize (H (q, o) Hin). simpl in H. apply outranks_reflect in Hr. rewrite Hr in H.
    apply is_err_iff, H.
  - intros H [q o] Hin. simpl. destruct (outranks_b q p) eqn:E; [|reflexivity]. simpl.
    apply is_err_iff, (H q o Hin), outranks_reflect, E.
Qed.

Lemma placed_ok_reflect t n : placed_ok_b t n = true <-> placed_ok t n.
Proof.
  unfold placed_ok_b, placed_ok. rewrite existsb_exists. split.
  - intros (lv & Hlv & H). apply existsb_exists in H as ([p o] & Hin & H). simpl in H.
    apply andb_prop in H as [H Hh]. apply andb_prop in H as [Hn Ho].
    apply String.eqb_eq in Hn. apply is_ok_iff in Ho. subst o. apply higher_infeasible_reflect in Hh.
    exists lv, p. auto.
  - intros (lv & p & Hlv & Hin & Hn & Hh). exists lv. split; [exact Hlv|]. apply existsb_exists.
    exists (p, OOk). split; [exact Hin|]. simpl. rewrite (proj2 (String.eqb_eq _ _) Hn).
    rewrite (proj2 (higher_infeasible_reflect lv p) Hh). reflexivity.
Qed.

Lemma deferred_ok_reflect t : deferred_ok_b t = true <-> deferred_ok t.
Proof.
  unfold deferred_ok_b, deferred_ok. rewrite existsb_exists. split.
  - intros (lv & Hlv & H). apply existsb_exists in H as ([p o] & Hin & H). simpl in H.
    apply andb_prop in H as [Ho Hh]. apply is_reserved_iff in Ho. subst o. apply higher_infeasible_reflect in Hh.
    exists lv, p. auto.
  - intros (lv & p & Hlv & Hin & Hh). exists lv. split; [exact Hlv|]. apply existsb_exists.
    exists (p, OReserved). split; [exact Hin|]. simpl. apply higher_infeasible_reflect, Hh.
Qed.

Lemma failed_ok_reflect t : failed_ok_b t = true <-> failed_ok t.
Proof.
  unfold failed_ok_b, failed_ok. rewrite forallb_forall. split.
  - intros H lv p o Hlv Hin. specialize (H lv Hlv). rewrite forallb_forall in H. apply is_err_iff, (H (p, o) Hin).
  - intros H lv Hlv. apply forallb_forall. intros [p o] Hin. apply is_err_iff. eapply H; eassumption.
Qed.

Lemma placed_strict_reflect t n : placed_strict_b t n = true <-> placed_strict t n.
Proof.
  unfold placed_strict_b, placed_strict. rewrite forallb_forall. split.
  - intros H lv lv' p q Hlv Hlv' Hp Hn Hq Hr. specialize (H lv Hlv). rewrite forallb_forall in H.
    specialize (H (p, OOk) Hp). simpl in H. rewrite (proj2 (String.eqb_eq _ _) Hn) in H. simpl in H.
    rewrite forallb_forall in H. specialize (H lv' Hlv'). rewrite forallb_forall in H.
    specialize (H (q, OOk) Hq). simpl in H. apply outranks_reflect in Hr. rewrite Hr in H. discriminate.
  - intros H lv Hlv. apply forallb_forall. intros [p o] Hp. simpl.
    destruct (String.eqb_spec (pname p) n) as [Hn|]; [|reflexivity]. destruct o; try reflexivity. simpl.
    apply forallb_forall. intros lv' Hlv'. apply forallb_forall. intros [q o'] Hq. simpl.
    destruct o'; try reflexivity. simpl. destruct (outranks_b q p) eqn:E; [|reflexivity].
    exfalso. apply (H lv lv' p q Hlv Hlv' Hp Hn Hq), outranks_reflect, E.
Qed.

(* the model's placement satisfies the oracle's specification, for every pool set and outcome table *)
Definition table_of (pools : list pool) (outs : list (pool -> outcome)) : table :=
  map (fun out => map (fun p => (p, out p)) pools) outs.

Lemma model_placement_ok_l pools outs l i :
  try_schedule 0 (map (fun out => map out (order_by_weight pools)) outs) = Placed l i ->
  exists p, nth_error (order_by_weight pools) i = Some p /\ placed_ok (table_of pools outs) (pname p).
Proof.
  intros H. destruct (weight_priority_levels_l _ _ _ _ H) as (out & p & Ho & Hp & Hin & Hok & Hhi & _).
  exists p. split; [exact Hp|]. exists (map (fun p => (p, out p)) pools), p. split.
  - unfold table_of. apply in_map_iff. exists out. split; [reflexivity|eapply nth_error_In, Ho].
  - split; [apply in_map_iff; exists p; split; [rewrite Hok; reflexivity|exact Hin]|]. split; [reflexivity|].
    intros q o Hq Hr. apply in_map_iff in Hq as (q' & E & Hq'). injection E as <- <-. apply Hhi; assumption.
Qed.

Section Liveness.
Open Scope nat_scope.

(* ------------------------------------------------------------------ every run can be completed *)

Definition wmeasure (os : list outcome) (s : pst) (w : nat) : nat :=
  match nth_error (ws s) w with
  | Some Idle => 2 * (length os - nxt s) + 1
  | Some (Busy _) => 2 * (length os - nxt s) + 2
  | _ => 0
  end.

Lemma pstep_other os s w w' : w <> w' -> nth_error (ws (pstep os s w)) w' = nth_error (ws s) w'.
Proof.
  intros N. unfold pstep. destruct (nth_error (ws s) w) as [[|i|]|]; try reflexivity.
  - destruct (_ <? _); simpl; apply nth_error_upd_other, N.
  - destruct (nth i os OErr); try destruct (idx_gt i (idx s)); simpl; apply nth_error_upd_other, N.
Qed.

Lemma pstep_dead_stays os s w w' : nth_error (ws s) w' = Some Dead -> nth_error (ws (pstep os s w)) w' = Some Dead.
Proof.
  intros H. destruct (Nat.eq_dec w w') as [<-|N]; [|rewrite pstep_other; assumption].
  unfold pstep. rewrite H. exact H.
Qed.

Lemma pstep_nxt os s w : nxt s <= length os -> nxt (pstep os s w) <= length os.
Proof.
  intros H. unfold pstep. destruct (nth_error (ws s) w) as [[|i|]|]; try exact H.
  - destruct (Nat.ltb_spec (nxt s) (length os)); simpl; lia.
  - destruct (nth i os OErr); try destruct (idx_gt i (idx s)); simpl; exact H.
Qed.

Lemma pstep_measure os s w : nxt s <= length os ->
  nth_error (ws s) w <> Some Dead -> w < length (ws s) -> wmeasure os (pstep os s w) w < wmeasure os s w.
Proof.
  intros Hn Hd Hw. unfold wmeasure, pstep.
  destruct (nth_error (ws s) w) as [[|i|]|] eqn:E; try congruence.
  - destruct (Nat.ltb_spec (nxt s) (length os)); simpl; rewrite nth_error_upd_same by exact Hw; lia.
  - destruct (nth i os OErr); try destruct (idx_gt i (idx s)); simpl; rewrite nth_error_upd_same by exact Hw; lia.
  - apply nth_error_None in E. lia.
Qed.

Lemma worker_dies os w : forall k s, nxt s <= length os -> w < length (ws s) -> wmeasure os s w <= k ->
  nth_error (ws (fold_left (pstep os) (repeat w k) s)) w = Some Dead.
Proof.
  induction k as [|k IH]; intros s Hn Hw Hm; simpl.
  - unfold wmeasure in Hm. destruct (nth_error (ws s) w) as [[|i|]|] eqn:E; try lia; [reflexivity|].
    apply nth_error_None in E. lia.
  - destruct (nth_error (ws s) w) as [x|] eqn:E; [|apply nth_error_None in E; lia].
    assert (D : {x = Dead} + {x <> Dead}) by (destruct x; [right|right|left]; congruence).
    apply IH; [apply pstep_nxt, Hn|rewrite pstep_len; exact Hw|].
    destruct D as [->|D].
    + unfold wmeasure. rewrite (pstep_dead_stays os s w w E). lia.
    + pose proof (pstep_measure os s w Hn ltac:(congruence) Hw). lia.
Qed.

Lemma fold_dead_stays os sched : forall s w', nth_error (ws s) w' = Some Dead ->
  nth_error (ws (fold_left (pstep os) sched s)) w' = Some Dead.
Proof. induction sched as [|w t IH]; intros s w' H; simpl; [exact H|]. apply IH, pstep_dead_stays, H. Qed.

Lemma fold_nxt os sched : forall s, nxt s <= length os -> nxt (fold_left (pstep os) sched s) <= length os.
Proof. induction sched as [|w t IH]; intros s H; simpl; [exact H|]. apply IH, pstep_nxt, H. Qed.

Lemma fold_len os sched : forall s, length (ws (fold_left (pstep os) sched s)) = length (ws s).
Proof. induction sched as [|w t IH]; intros s; simpl; [reflexivity|]. rewrite IH. apply pstep_len. Qed.

(* run worker 0 to the end, then worker 1, ... *)
Fixpoint drain (k : nat) (j : nat) : list nat :=
  match j with O => [] | S j' => drain k j' ++ repeat j' k end.

Lemma wmeasure_bound os s w : wmeasure os s w <= 2 * length os + 2.
Proof. unfold wmeasure. destruct (nth_error (ws s) w) as [[|i|]|]; lia. Qed.

Lemma drain_kills os s j : nxt s <= length os -> j <= length (ws s) ->
  forall w, w < j -> nth_error (ws (fold_left (pstep os) (drain (2 * length os + 2) j) s)) w = Some Dead.
Proof.
  intros Hn. induction j as [|j IH]; intros Hj w Hw; [lia|]. simpl. rewrite fold_left_app.
  set (s' := fold_left (pstep os) (drain (2 * length os + 2) j) s).
  destruct (Nat.eq_dec w j) as [->|N].
  - apply worker_dies; [apply fold_nxt, Hn|unfold s'; rewrite fold_len; lia|apply wmeasure_bound].
  - apply fold_dead_stays. apply IH; lia.
Qed.

Lemma all_dead_quiescent s : (forall w, w < length (ws s) -> nth_error (ws s) w = Some Dead) -> quiescent s = true.
Proof.
  unfold quiescent. intros H. apply forallb_forall. intros x Hx. apply In_nth_error in Hx as [w Hw].
  assert (L : w < length (ws s)) by (apply nth_error_Some; congruence). rewrite (H w L) in Hw. injection Hw as <-. reflexivity.
Qed.

(* the hypothesis of parallel_lowest_index_wins is satisfiable for every input and worker count *)
Lemma parallel_run_completes_l os workers : exists sched, quiescent (prun os workers sched) = true.
Proof.
  exists (drain (2 * length os + 2) (Nat.min workers (length os))). apply all_dead_quiescent.
  intros w Hw. unfold prun in *. rewrite fold_len in Hw. simpl in Hw. rewrite repeat_length in Hw.
  apply drain_kills; simpl; [lia|rewrite repeat_length; lia|exact Hw].
Qed.
End Liveness.
