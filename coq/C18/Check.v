(* C18 — correspondence check and oracle, evaluated by vm_compute on what the Go harness observed on the
   real disruption.SimulateScheduling, Provisioner.Schedule and Cluster.DeepCopyNodes. *)
From Coq Require Import ZArith String List Bool.
From KV Require Import C18.Model gen.C18_deepcopy.
Import ListNotations.
Open Scope string_scope.

Inductive case :=
| CaseOp (o : obs)
| CaseAlias (rows : list (string * string * bool * bool)). (* type, field, holds references, shares memory with the original *)

Fixpoint strs_eqb (a b : list string) : bool :=
  match a, b with
  | [], [] => true
  | x :: a', y :: b' => String.eqb x y && strs_eqb a' b'
  | _, _ => false
  end.

Definition brec_eqb (a b : brec) : bool :=
  Z.eqb (b_ack a) (b_ack b) && Z.eqb (b_att a) (b_att b) && Z.eqb (b_sched a) (b_sched b) &&
  Z.eqb (b_healthy a) (b_healthy b) && String.eqb (b_nc a) (b_nc b).

(* runtime aliasing of DeepCopyNodes agrees with the translated fact table *)
Definition alias_row_ok (r : string * string * bool * bool) : bool :=
  let '(ty, f, nonempty, shared) := r in
  if nonempty then Bool.eqb shared (is_shallow (fact_of table ty f)) else true.

Definition write_fields_ok (o : obs) : bool :=
  strs_eqb (o_copy_written o) (if o_placed o then en_add_writes else []).

Definition nominate_ok (o : obs) : bool :=
  forallb (fun r => let '(pre, placed, post) := r in
                    Z.eqb post (nominate (o_kind o) (o_outcome o) (o_now o) (o_window o) (pre, placed))) (o_nom o).

Definition book_ok (o : obs) : bool :=
  let ms := marks_of (o_kind o) (o_outcome o) (o_rejected o) (o_result o) in
  forallb (fun r => let '(pod, pre, post) := r in brec_eqb post (apply_marks (o_now o) ms pod pre)) (o_book o).

Definition check_case (c : case) : list string :=
  match c with
  | CaseAlias rows => if forallb alias_row_ok rows then [] else ["corr:deepcopy_table"]
  | CaseOp o =>
      (if write_fields_ok o then [] else ["corr:write_fields"]) ++
      (if o_fresh o then [] else ["corr:fresh_slices"]) ++
      (if o_cache_fresh o then [] else ["corr:precompute_allocates"]) ++
      (if nominate_ok o then [] else ["corr:nominate"]) ++
      (if book_ok o then [] else ["corr:bookkeeping"]) ++
      (if holds_b o then [] else ["oracle:no_side_effects"])
  end.

Definition check_all (cs : list (Z * case)) : list (Z * string) :=
  flat_map (fun ic => map (fun t => (fst ic, t)) (check_case (snd ic))) cs.
