(* C18 — proofs.  The frame property of scheduling runs over the heap model: every write of a
   run lands on an address allocated during that run, given the deep-copy facts; a provisioning
   pass additionally writes the nomination field of the cluster's own nodes and the bookkeeping. *)
From Coq Require Import ZArith String List Bool Arith Lia.
From KV Require Import C18.Model gen.C18_deepcopy.
Import ListNotations.
Open Scope string_scope.
Open Scope list_scope.

(* ------------------------------------------------------------------ small facts *)

Lemma lookup_update_other : forall fs n0 v n, n <> n0 -> lookup (update fs n0 v) n = lookup fs n.
Proof.
  induction fs as [|[k x] r IH]; intros n0 v n Hne; simpl; auto.
  destruct (String.eqb k n0) eqn:E; simpl.
  - apply String.eqb_eq in E. subst k.
    destruct (String.eqb n0 n) eqn:E2; auto. apply String.eqb_eq in E2. congruence.
  - destruct (String.eqb k n); auto.
Qed.

Definition is_wpath (ty n : string) : bool :=
  existsb (fun p => String.eqb (fst p) ty && String.eqb (snd p) n) wpaths.

Definition wname (n : string) : bool := existsb (fun p => String.eqb (snd p) n) wpaths.

Lemma is_wpath_wname : forall ty n, is_wpath ty n = true -> wname n = true.
Proof.
  intros ty n H. unfold is_wpath in H. unfold wname.
  apply existsb_exists in H. destruct H as [p [Hin Hp]].
  apply existsb_exists. exists p. split; auto.
  apply andb_true_iff in Hp. tauto.
Qed.

Lemma table_ok_deep : forall t ty n, table_ok t = true -> is_wpath ty n = true -> deep (fact_of t ty n) = true.
Proof.
  intros t ty n Hok Hw. unfold table_ok in Hok. unfold is_wpath in Hw.
  apply existsb_exists in Hw. destruct Hw as [p [Hin Hp]].
  apply andb_true_iff in Hp. destruct Hp as [H1 H2].
  apply String.eqb_eq in H1. apply String.eqb_eq in H2. subst.
  rewrite forallb_forall in Hok. exact (Hok p Hin).
Qed.

(* ------------------------------------------------------------------ frames *)

Definition frame (N : addr) (h h' : heap) : Prop :=
  next h <= next h' /\ forall a, a < N -> cells h' a = cells h a.

Lemma frame_refl : forall N h, frame N h h.
Proof. intros; split; auto. Qed.

Lemma frame_trans : forall N h1 h2 h3, frame N h1 h2 -> frame N h2 h3 -> frame N h1 h3.
Proof.
  intros N h1 h2 h3 [A1 B1] [A2 B2]. split; [lia|].
  intros a Ha. rewrite B2, B1; auto.
Qed.

(* allocator invariant *)
Definition wf (h : heap) : Prop := forall a, next h <= a -> cells h a = CFree.

Definition cell_ok (N : addr) (c : cell) : Prop :=
  match c with
  | CObj ty fs => forall n r, is_wpath ty n = true -> lookup fs n = Some (VRef (Some r)) -> N <= r
  | _ => True
  end.

(* Everything allocated since N only reaches, along the written-through paths, memory allocated since N. *)
Definition St (N : addr) (h : heap) : Prop :=
  wf h /\ N <= next h /\ forall a, N <= a -> cell_ok N (cells h a).

Lemma St_start : forall h, wf h -> St (next h) h.
Proof.
  intros h Hwf. split; [auto|split; [lia|]].
  intros a Ha. rewrite (Hwf a Ha). exact I.
Qed.

Lemma alloc_St : forall N h c, St N h -> cell_ok N c ->
  St N (fst (alloc h c)) /\ frame N h (fst (alloc h c)) /\ N <= snd (alloc h c) /\ next h <= snd (alloc h c).
Proof.
  intros N h c [Hwf [HN Hok]] Hc. unfold alloc, St, wf, frame; simpl.
  repeat split.
  - intros a Ha. destruct (Nat.eqb a (next h)) eqn:E.
    + apply Nat.eqb_eq in E. lia.
    + apply Hwf. lia.
  - lia.
  - intros a Ha. destruct (Nat.eqb a (next h)); auto.
  - lia.
  - intros a Ha. destruct (Nat.eqb a (next h)) eqn:E; auto. apply Nat.eqb_eq in E. lia.
  - lia.
  - lia.
Qed.

Lemma write_St : forall N h a c, St N h -> a < next h -> cell_ok N c -> N <= a ->
  St N (write h a c) /\ frame N h (write h a c).
Proof.
  intros N h a c [Hwf [HN Hok]] Ha Hc HNa. unfold write, St, wf, frame; simpl.
  repeat split.
  - intros x Hx. destruct (Nat.eqb x a) eqn:E.
    + apply Nat.eqb_eq in E. lia.
    + apply Hwf; auto.
  - auto.
  - intros x Hx. destruct (Nat.eqb x a); auto.
  - lia.
  - intros x Hx. destruct (Nat.eqb x a) eqn:E; auto. apply Nat.eqb_eq in E. lia.
Qed.

Lemma write_St_only : forall N h a c, St N h -> a < next h -> (N <= a -> cell_ok N c) -> St N (write h a c).
Proof.
  intros N h a c [Hwf [HN Hok]] Ha Hc. unfold write, St, wf; simpl.
  repeat split.
  - intros x Hx. destruct (Nat.eqb x a) eqn:E.
    + apply Nat.eqb_eq in E. lia.
    + apply Hwf; auto.
  - auto.
  - intros x Hx. destruct (Nat.eqb x a) eqn:E; auto. apply Nat.eqb_eq in E. subst. auto.
Qed.

Lemma wf_alloc_lt : forall h a, wf h -> cells h a <> CFree -> a < next h.
Proof.
  intros h a Hwf Hne. destruct (lt_dec a (next h)); auto.
  exfalso. apply Hne. apply Hwf. lia.
Qed.

Lemma leaf_append_St : forall N h a k, St N h -> N <= a ->
  St N (leaf_append h a k) /\ frame N h (leaf_append h a k).
Proof.
  intros N h a k HSt HNa. unfold leaf_append.
  destruct (cells h a) eqn:E; try (split; [auto|apply frame_refl]).
  apply write_St; auto.
  - apply wf_alloc_lt; [apply HSt|congruence].
  - exact I.
Qed.

Lemma set_field_St : forall N h a n v, St N h -> N <= a -> wname n = false ->
  St N (set_field h a n v) /\ frame N h (set_field h a n v).
Proof.
  intros N h a n v HSt HNa Hn. unfold set_field.
  destruct (cells h a) eqn:E; try (split; [auto|apply frame_refl]).
  apply write_St; auto.
  - apply wf_alloc_lt; [apply HSt|congruence].
  - simpl. intros m r Hw Hl.
    assert (m <> n) as Hne. { intro; subst. apply is_wpath_wname in Hw. congruence. }
    rewrite lookup_update_other in Hl; auto.
    destruct HSt as [_ [_ Hok]]. specialize (Hok a HNa). rewrite E in Hok. simpl in Hok. eauto.
Qed.

Lemma get_field_ok : forall N h a ty n r, St N h -> N <= a -> is_wpath ty n = true ->
  get_field h a ty n = Some r -> N <= r.
Proof.
  intros N h a ty n r [_ [_ Hok]] HNa Hw Hg. unfold get_field in Hg.
  specialize (Hok a HNa).
  destruct (cells h a) eqn:E; try discriminate.
  destruct (String.eqb ty0 ty) eqn:Et; try discriminate.
  apply String.eqb_eq in Et. subst ty0.
  destruct (lookup fs n) as [[z|r']|] eqn:El; try discriminate. subst r'.
  simpl in Hok. eauto.
Qed.

(* ------------------------------------------------------------------ DeepCopy allocates; deep facts give fresh references *)

Definition val_fresh (b : addr) (v : val) : Prop :=
  match v with VRef (Some r) => b <= r | _ => True end.

Definition good (N : addr) (h h' : heap) : Prop := St N h' /\ frame N h h'.

Lemma good_refl : forall N h, St N h -> good N h h.
Proof. intros; split; auto using frame_refl. Qed.

Lemma good_next : forall N h h', good N h h' -> next h <= next h'.
Proof. intros N h h' [_ [H _]]; auto. Qed.

Lemma copy_leaf_good : forall N h a h' v, St N h -> copy_leaf h a = (h', v) ->
  good N h h' /\ val_fresh (next h) v.
Proof.
  intros N h a h' v HSt H. unfold copy_leaf in H.
  destruct (cells h a) eqn:E; try (inversion H; subst; split; [apply good_refl; auto|exact I]).
  pose proof (alloc_St N h (CLeaf p) HSt I) as [A [B [C D]]].
  destruct (alloc h (CLeaf p)) as [h1 a1] eqn:Ea. inversion H; subst. simpl in *.
  split; [split; auto|auto].
Qed.

Lemma copy_field_flat_good : forall N f h v h' v', St N h -> copy_field_flat f h v = (h', v') ->
  good N h h' /\ (deep f = true -> val_fresh (next h) v').
Proof.
  intros N f h v h' v' HSt H.
  destruct f; destruct v as [z|[a|]]; simpl in H;
    try (inversion H; subst; split; [apply good_refl; auto|intro D; try discriminate D; exact I]);
    try (destruct (copy_leaf_good N h a h' v' HSt H) as [G F]; split; auto).
Qed.

Lemma copy_fields_flat_good : forall N t fs h h' fs', St N h -> copy_fields_flat t h fs = (h', fs') ->
  good N h h' /\
  (forall n r, deep (fact_in t n) = true -> lookup fs' n = Some (VRef (Some r)) -> next h <= r).
Proof.
  intros N t fs. induction fs as [|[n0 v] rest IH]; intros h h' fs' HSt H; simpl in H.
  - inversion H; subst. split; [apply good_refl; auto|]. intros n r _ Hl. discriminate Hl.
  - destruct (copy_field_flat (fact_in t n0) h v) as [h1 v1] eqn:E1.
    destruct (copy_fields_flat t h1 rest) as [h2 r2] eqn:E2.
    inversion H; subst. clear H.
    destruct (copy_field_flat_good N _ _ _ _ _ HSt E1) as [[S1 F1] V1].
    destruct (IH _ _ _ S1 E2) as [[S2 F2] V2].
    split; [split; [auto|eapply frame_trans; eauto]|].
    intros n r Hd Hl. simpl in Hl.
    destruct (String.eqb n0 n) eqn:En.
    + apply String.eqb_eq in En. subst n0. inversion Hl; subst v1. apply V1 in Hd. exact Hd.
    + apply V2 in Hl; auto. destruct F1 as [Hn _]. lia.
Qed.

Lemma copy_obj_flat_good : forall N tbl h a h' v, table_ok tbl = true -> St N h -> copy_obj_flat tbl h a = (h', v) ->
  good N h h' /\ val_fresh (next h) v.
Proof.
  intros N tbl h a h' v Hok HSt H. unfold copy_obj_flat in H.
  destruct (cells h a) eqn:E.
  - inversion H; subst. split; [apply good_refl; auto|exact I].
  - pose proof (alloc_St N h (CLeaf p) HSt I) as [A [B [C D]]].
    destruct (alloc h (CLeaf p)) as [h1 a1] eqn:Ea. inversion H; subst. simpl in *. split; [split; auto|auto].
  - destruct (copy_fields_flat (facts_of tbl ty) h fs) as [h1 fs1] eqn:E1.
    destruct (copy_fields_flat_good N _ _ _ _ _ HSt E1) as [[S1 F1] V1].
    assert (cell_ok N (CObj ty fs1)) as Hc.
    { simpl. intros n r Hw Hl. apply (table_ok_deep tbl) in Hw; auto.
      apply V1 in Hl; auto. destruct HSt as [_ [HN _]]. lia. }
    pose proof (alloc_St N h1 (CObj ty fs1) S1 Hc) as [A [B [C D]]].
    destruct (alloc h1 (CObj ty fs1)) as [h2 a2] eqn:Ea. inversion H; subst. simpl in *.
    split; [split; [auto|eapply frame_trans; eauto]|]. destruct F1 as [Hn _]. lia.
Qed.

Lemma copy_field_top_good : forall N tbl f h v h' v', table_ok tbl = true -> St N h ->
  copy_field_top tbl f h v = (h', v') ->
  good N h h' /\ (deep f = true -> val_fresh (next h) v').
Proof.
  intros N tbl f h v h' v' Hok HSt H.
  destruct f; destruct v as [z|[a|]]; simpl in H;
    try (inversion H; subst; split; [apply good_refl; auto|intro D; try discriminate D; exact I]).
  - destruct (copy_leaf_good N h a h' v' HSt H) as [G F]; split; auto.
  - destruct (copy_obj_flat_good N tbl h a h' v' Hok HSt H) as [G F]; split; auto.
Qed.

Lemma copy_fields_top_good : forall N tbl t fs h h' fs', table_ok tbl = true -> St N h ->
  copy_fields_top tbl t h fs = (h', fs') ->
  good N h h' /\
  (forall n r, deep (fact_in t n) = true -> lookup fs' n = Some (VRef (Some r)) -> next h <= r).
Proof.
  intros N tbl t fs. induction fs as [|[n0 v] rest IH]; intros h h' fs' Hok HSt H; simpl in H.
  - inversion H; subst. split; [apply good_refl; auto|]. intros n r _ Hl. discriminate Hl.
  - destruct (copy_field_top tbl (fact_in t n0) h v) as [h1 v1] eqn:E1.
    destruct (copy_fields_top tbl t h1 rest) as [h2 r2] eqn:E2.
    inversion H; subst. clear H.
    destruct (copy_field_top_good N _ _ _ _ _ _ Hok HSt E1) as [[S1 F1] V1].
    destruct (IH _ _ _ Hok S1 E2) as [[S2 F2] V2].
    split; [split; [auto|eapply frame_trans; eauto]|].
    intros n r Hd Hl. simpl in Hl.
    destruct (String.eqb n0 n) eqn:En.
    + apply String.eqb_eq in En. subst n0. inversion Hl; subst v1. apply V1 in Hd. exact Hd.
    + apply V2 in Hl; auto. destruct F1 as [Hn _]. lia.
Qed.

Definition opt_ge (N : addr) (o : option addr) : Prop := match o with Some c => N <= c | None => True end.

Lemma copy_node_good : forall N tbl h a h' c, table_ok tbl = true -> St N h -> copy_node tbl h a = (h', c) ->
  good N h h' /\ opt_ge N c.
Proof.
  intros N tbl h a h' c Hok HSt H. unfold copy_node in H.
  destruct (cells h a) eqn:E; try (inversion H; subst; split; [apply good_refl; auto|exact I]).
  destruct (copy_fields_top tbl (facts_of tbl ty) h fs) as [h1 fs1] eqn:E1.
  destruct (copy_fields_top_good N _ _ _ _ _ _ Hok HSt E1) as [[S1 F1] V1].
  assert (cell_ok N (CObj ty fs1)) as Hc.
  { simpl. intros n r Hw Hl. apply (table_ok_deep tbl) in Hw; auto.
    apply V1 in Hl; auto. destruct HSt as [_ [HN _]]. lia. }
  pose proof (alloc_St N h1 (CObj ty fs1) S1 Hc) as [A [B [C D]]].
  destruct (alloc h1 (CObj ty fs1)) as [h2 a2] eqn:Ea. inversion H; subst. simpl in *.
  split; [split; [auto|eapply frame_trans; eauto]|auto].
Qed.

Lemma copy_nodes_good : forall N tbl roots h h' cs, table_ok tbl = true -> St N h ->
  copy_nodes tbl h roots = (h', cs) ->
  good N h h' /\ Forall (opt_ge N) cs.
Proof.
  intros N tbl roots. induction roots as [|r rs IH]; intros h h' cs Hok HSt H; simpl in H.
  - inversion H; subst. split; [apply good_refl; auto|constructor].
  - destruct (copy_node tbl h r) as [h1 c] eqn:E1.
    destruct (copy_nodes tbl h1 rs) as [h2 cs2] eqn:E2. inversion H; subst. clear H.
    destruct (copy_node_good N _ _ _ _ _ Hok HSt E1) as [[S1 F1] C1].
    destruct (IH _ _ _ Hok S1 E2) as [[S2 F2] C2].
    split; [split; [auto|eapply frame_trans; eauto]|constructor; auto].
Qed.

(* ------------------------------------------------------------------ the scheduler's steps *)

Lemma wpath_sn_hp : is_wpath "StateNode" "hostPortUsage" = true. Proof. reflexivity. Qed.
Lemma wpath_sn_vu : is_wpath "StateNode" "volumeUsage" = true. Proof. reflexivity. Qed.
Lemma wpath_hp_res : is_wpath "HostPortUsage" "reserved" = true. Proof. reflexivity. Qed.
Lemma wpath_vu_pv : is_wpath "VolumeUsage" "podVolumes" = true. Proof. reflexivity. Qed.
Lemma wname_volumes : wname "volumes" = false. Proof. reflexivity. Qed.
Lemma wname_nominated : wname "nominatedUntil" = false. Proof. reflexivity. Qed.

Lemma en_add_good : forall N h c key, St N h -> N <= c -> good N h (en_add h c key).
Proof.
  intros N h c key HSt HNc. unfold en_add.
  set (h1 := match get_field h c "StateNode" "hostPortUsage" with
             | Some hp => match get_field h hp "HostPortUsage" "reserved" with
                          | Some m => leaf_append h m key | None => h end
             | None => h end).
  assert (good N h h1) as G1.
  { subst h1. destruct (get_field h c "StateNode" "hostPortUsage") as [hp|] eqn:E1; [|apply good_refl; auto].
    pose proof (get_field_ok N h c _ _ hp HSt HNc wpath_sn_hp E1) as Hhp.
    destruct (get_field h hp "HostPortUsage" "reserved") as [m|] eqn:E2; [|apply good_refl; auto].
    pose proof (get_field_ok N h hp _ _ m HSt Hhp wpath_hp_res E2) as Hm.
    destruct (leaf_append_St N h m key HSt Hm); split; auto. }
  destruct G1 as [S1 F1].
  destruct (get_field h1 c "StateNode" "volumeUsage") as [vu|] eqn:E3; [|split; auto].
  pose proof (get_field_ok N h1 c _ _ vu S1 HNc wpath_sn_vu E3) as Hvu.
  set (h2 := match get_field h1 vu "VolumeUsage" "podVolumes" with
             | Some m => leaf_append h1 m key | None => h1 end).
  assert (good N h1 h2) as G2.
  { subst h2. destruct (get_field h1 vu "VolumeUsage" "podVolumes") as [m|] eqn:E4; [|apply good_refl; auto].
    pose proof (get_field_ok N h1 vu _ _ m S1 Hvu wpath_vu_pv E4) as Hm.
    destruct (leaf_append_St N h1 m key S1 Hm); split; auto. }
  destruct G2 as [S2 F2].
  set (old := match get_field h2 vu "VolumeUsage" "volumes" with Some m => leaf_of h2 m | None => [] end).
  pose proof (alloc_St N h2 (CLeaf (old ++ [key])) S2 I) as [A [B [C D]]].
  destruct (alloc h2 (CLeaf (old ++ [key]))) as [h3 u] eqn:Ea. simpl in *.
  destruct (set_field_St N h3 vu "volumes" (VRef (Some u)) A Hvu wname_volumes) as [S4 F4].
  split; auto.
  eapply frame_trans; [exact F1|]. eapply frame_trans; [exact F2|]. eapply frame_trans; [exact B|exact F4].
Qed.

Lemma new_claim_good : forall N h s mask, St N h -> good N h (new_claim h s mask).
Proof.
  intros N h s mask HSt. unfold new_claim.
  pose proof (alloc_St N h (CLeaf (mask_filter (leaf_of h s) mask)) HSt I) as [A [B [C D]]].
  destruct (alloc h (CLeaf (mask_filter (leaf_of h s) mask))) as [h1 u] eqn:Ea. simpl in *.
  assert (u < next h1) as Hu.
  { unfold alloc in Ea. inversion Ea; subst. simpl. lia. }
  destruct (write_St N h1 u (CLeaf (sort_z (leaf_of h1 u))) A Hu I C) as [S2 F2].
  split; auto. eapply frame_trans; eauto.
Qed.

(* ------------------------------------------------------------------ what may change below N, per address *)

Definition cacheF : string := "allocatableOfferings".
Definition nomF : string := "nominatedUntil".

Lemma wname_cache : wname cacheF = false. Proof. reflexivity. Qed.

Definition same_except_l (ns : list string) (c c' : cell) : Prop :=
  match c, c' with
  | CObj ty fs, CObj ty' fs' => ty' = ty /\ forall m, ~ In m ns -> lookup fs' m = lookup fs m
  | _, _ => c' = c
  end.

Lemma same_except_l_refl : forall ns c, same_except_l ns c c.
Proof. intros ns [| |ty fs]; simpl; auto. Qed.

Lemma same_except_l_trans : forall ns c1 c2 c3, same_except_l ns c1 c2 -> same_except_l ns c2 c3 -> same_except_l ns c1 c3.
Proof.
  intros ns c1 c2 c3 H1 H2.
  destruct c1 as [|p1|t1 f1]; destruct c2 as [|p2|t2 f2]; simpl in H1; try discriminate H1; try (inversion H1; subst);
    destruct c3 as [|p3|t3 f3]; simpl in H2; try discriminate H2; try (inversion H2; subst); simpl; auto.
  destruct H1 as [E1 L1]. destruct H2 as [E2 L2]. subst. split; auto.
  intros m Hm. rewrite L2, L1; auto.
Qed.

Lemma same_except_l_mono : forall ns ns' c c', incl ns ns' -> same_except_l ns c c' -> same_except_l ns' c c'.
Proof.
  intros ns ns' c c' Hi H. destruct c as [|p|t f]; destruct c' as [|p'|t' f']; simpl in *; try exact H.
  destruct H as [E L]. split; [exact E|]. intros m Hm. apply L. intro Hin. apply Hm. apply Hi. exact Hin.
Qed.

(* None: the cell may change arbitrarily; Some []: it must stay equal; Some ns: only the fields ns may change *)
Definition rel (ex : option (list string)) (c c' : cell) : Prop :=
  match ex with
  | None => True
  | Some [] => c' = c
  | Some ns => same_except_l ns c c'
  end.

Lemma rel_refl : forall ex c, rel ex c c.
Proof. intros [[|n ns]|] c; simpl; auto using same_except_l_refl. Qed.

Lemma rel_trans : forall ex c1 c2 c3, rel ex c1 c2 -> rel ex c2 c3 -> rel ex c1 c3.
Proof.
  intros [[|n ns]|] c1 c2 c3 H1 H2; simpl in *; auto.
  - congruence.
  - eapply same_except_l_trans; eauto.
Qed.

Definition policy := addr -> option (list string).

Definition xframe (al : policy) (N : addr) (h h' : heap) : Prop :=
  next h <= next h' /\ forall a, a < N -> rel (al a) (cells h a) (cells h' a).

Lemma frame_xframe : forall al N h h', frame N h h' -> xframe al N h h'.
Proof. intros al N h h' [A B]. split; auto. intros a Ha. rewrite (B a Ha). apply rel_refl. Qed.

Lemma xframe_refl : forall al N h, xframe al N h h.
Proof. intros. apply frame_xframe, frame_refl. Qed.

Lemma xframe_trans : forall al N h1 h2 h3, xframe al N h1 h2 -> xframe al N h2 h3 -> xframe al N h1 h3.
Proof.
  intros al N h1 h2 h3 [A1 B1] [A2 B2]. split; [lia|].
  intros a Ha. eapply rel_trans; eauto.
Qed.

Lemma xframe_weaken : forall al N M h h', M <= N -> xframe al N h h' -> xframe al M h h'.
Proof. intros al N M h h' HM [A B]. split; auto. intros a Ha. apply B. lia. Qed.

Definition allows (al : policy) (a : addr) (n : string) : Prop :=
  match al a with None => True | Some ns => In n ns end.

Lemma set_field_x : forall al N h a n v, St N h -> wname n = false -> allows al a n ->
  St N (set_field h a n v) /\ xframe al N h (set_field h a n v).
Proof.
  intros al N h a n v HSt Hn Hal. unfold set_field.
  destruct (cells h a) eqn:E; try (split; [auto|apply xframe_refl]).
  assert (a < next h) as Hr by (apply wf_alloc_lt; [apply HSt|congruence]).
  split.
  - apply write_St_only; auto. intros Hx. simpl. intros m q Hw Hl.
    assert (m <> n) as Hne. { intro; subst. apply is_wpath_wname in Hw. congruence. }
    rewrite lookup_update_other in Hl; auto.
    destruct HSt as [_ [_ Hok]]. specialize (Hok a Hx). rewrite E in Hok. simpl in Hok. eauto.
  - unfold write, xframe; simpl. split; [lia|].
    intros x Hx. destruct (Nat.eqb x a) eqn:Ex; [|apply rel_refl].
    apply Nat.eqb_eq in Ex. subst x. rewrite E. unfold allows in Hal. unfold rel.
    destruct (al a) as [[|n0 ns]|]; auto.
    + destruct Hal.
    + simpl. split; auto. intros m Hm. apply lookup_update_other. intro; subst. apply Hm. exact Hal.
Qed.

Lemma leaf_append_x : forall al N h a k, St N h -> al a = None ->
  St N (leaf_append h a k) /\ xframe al N h (leaf_append h a k).
Proof.
  intros al N h a k HSt Hal. unfold leaf_append.
  destruct (cells h a) eqn:E; try (split; [auto|apply xframe_refl]).
  assert (a < next h) as Hr by (apply wf_alloc_lt; [apply HSt|congruence]).
  split.
  - apply write_St_only; auto. intros _. exact I.
  - unfold write, xframe; simpl. split; [lia|].
    intros x Hx. destruct (Nat.eqb x a) eqn:Ex; [|apply rel_refl].
    apply Nat.eqb_eq in Ex. subst x. rewrite Hal. exact I.
Qed.

Lemma leaf_map_x : forall al N h a f, St N h -> al a = None ->
  St N (leaf_map h a f) /\ xframe al N h (leaf_map h a f).
Proof.
  intros al N h a f HSt Hal. unfold leaf_map.
  destruct (cells h a) eqn:E; try (split; [auto|apply xframe_refl]).
  assert (a < next h) as Hr by (apply wf_alloc_lt; [apply HSt|congruence]).
  split.
  - apply write_St_only; auto. intros _. exact I.
  - unfold write, xframe; simpl. split; [lia|].
    intros x Hx. destruct (Nat.eqb x a) eqn:Ex; [|apply rel_refl].
    apply Nat.eqb_eq in Ex. subst x. rewrite Hal. exact I.
Qed.

Lemma precompute_x : forall al N h a, St N h -> allows al a cacheF ->
  St N (precompute h a) /\ xframe al N h (precompute h a).
Proof.
  intros al N h a HSt Hal. unfold precompute.
  destruct (cells h a) eqn:E; try (split; [auto|apply xframe_refl]).
  destruct (String.eqb ty "InstanceType"); try (split; [auto|apply xframe_refl]).
  set (cap := match get_field h a "InstanceType" "Capacity" with Some m => leaf_of h m | None => [] end).
  assert (forall hx, (let '(h1, u) := alloc h (CLeaf cap) in set_field h1 a "allocatableOfferings" (VRef (Some u))) = hx ->
            St N hx /\ xframe al N h hx) as G.
  { intros hx Hx.
    pose proof (alloc_St N h (CLeaf cap) HSt I) as [A [B _]].
    destruct (alloc h (CLeaf cap)) as [h1 u] eqn:Ea. simpl in *. subst hx.
    destruct (set_field_x al N h1 a "allocatableOfferings" (VRef (Some u)) A wname_cache Hal) as [S2 X2].
    split; auto. eapply xframe_trans; [apply frame_xframe; exact B|exact X2]. }
  destruct (lookup fs "allocatableOfferings") as [[z|[r|]]|]; try (apply G; reflexivity).
  split; [auto|apply xframe_refl].
Qed.

(* which steps a policy lets through *)
Definition permits (al : policy) (e : env) (o : sop) : Prop :=
  match o with
  | SAddPod _ _ | SNewClaim _ _ => True
  | SPrecompute t => forall a, nth_error (e_types e) t = Some a -> allows al a cacheF
  | SInjectTSC i _ => forall a, nth_error (e_pods e) i = Some a -> al a = None
  | PNominate i _ => forall r, nth_error (e_roots e) i = Some r -> allows al r nomF
  | PMark _ => al (e_book e) = None
  end.

Lemma step_x : forall al e N copies h o, St N h -> Forall (opt_ge N) copies -> permits al e o ->
  St N (step e copies h o) /\ xframe al N h (step e copies h o).
Proof.
  intros al e N copies h o HSt Hc Hp. destruct o as [i key|s mask|t|i k|i t|pod]; simpl.
  - destruct (nth i copies None) as [c|] eqn:En.
    + assert (N <= c) as Hge.
      { destruct (nth_in_or_default i copies None) as [Hin|Hd]; [|rewrite En in Hd; discriminate].
        rewrite Forall_forall in Hc. specialize (Hc _ Hin). rewrite En in Hc. exact Hc. }
      destruct (en_add_good N h c key HSt Hge) as [S F]. split; [auto|apply frame_xframe; auto].
    + split; [auto|apply xframe_refl].
  - destruct (nth_error (e_slices e) s) as [a|].
    + destruct (new_claim_good N h a mask HSt) as [S F]. split; [auto|apply frame_xframe; auto].
    + split; [auto|apply xframe_refl].
  - destruct (nth_error (e_types e) t) as [a|] eqn:En.
    + apply precompute_x; auto; try (apply (Hp a); exact En).
    + split; [auto|apply xframe_refl].
  - destruct (nth_error (e_pods e) i) as [a|] eqn:En.
    + apply leaf_map_x; auto; try (apply (Hp a); exact En).
    + split; [auto|apply xframe_refl].
  - destruct (nth_error (e_roots e) i) as [r|] eqn:En.
    + apply set_field_x; auto; try (apply (Hp r); exact En).
    + split; [auto|apply xframe_refl].
  - apply leaf_append_x; auto.
Qed.

Lemma steps_x : forall al e N copies ops h, St N h -> Forall (opt_ge N) copies -> Forall (permits al e) ops ->
  St N (fold_left (step e copies) ops h) /\ xframe al N h (fold_left (step e copies) ops h).
Proof.
  intros al e N copies ops. induction ops as [|o ops IH]; intros h HSt Hc Hp; simpl.
  - split; [auto|apply xframe_refl].
  - inversion Hp; subst.
    destruct (step_x al e N copies h o HSt Hc H1) as [S1 X1].
    destruct (IH _ S1 Hc H2) as [S2 X2].
    split; [auto|eapply xframe_trans; eauto].
Qed.

(* one run: DeepCopyNodes allocates; every later write is fresh or permitted by the policy *)
Lemma run_x : forall al e h ops, table_ok (e_tbl e) = true -> wf h -> Forall (permits al e) ops ->
  wf (run e h ops) /\ xframe al (next h) h (run e h ops).
Proof.
  intros al e h ops Hok Hwf Hp. unfold run.
  destruct (copy_nodes (e_tbl e) h (e_roots e)) as [h1 copies] eqn:Ec.
  destruct (copy_nodes_good (next h) _ _ _ _ _ Hok (St_start h Hwf) Ec) as [[S1 F1] C1].
  destruct (steps_x al e (next h) copies ops h1 S1 C1 Hp) as [S2 X2].
  split; [apply S2|]. eapply xframe_trans; [apply frame_xframe; exact F1|exact X2].
Qed.

Lemma run_all_x : forall al e runs h, table_ok (e_tbl e) = true -> wf h -> Forall (Forall (permits al e)) runs ->
  wf (run_all e h runs) /\ xframe al (next h) h (run_all e h runs).
Proof.
  intros al e runs. induction runs as [|ops runs IH]; intros h Hok Hwf Hp; simpl.
  - split; [auto|apply xframe_refl].
  - inversion Hp; subst.
    destruct (run_x al e h ops Hok Hwf H1) as [W1 X1].
    destruct (IH _ Hok W1 H2) as [W2 X2].
    split; auto. eapply xframe_trans; [exact X1|]. eapply xframe_weaken; [|exact X2]. destruct X1; auto.
Qed.

(* ------------------------------------------------------------------ the three policies *)

Definition mem_a (a : addr) (l : list addr) : bool := existsb (Nat.eqb a) l.

Lemma mem_a_In : forall a l, mem_a a l = true <-> In a l.
Proof.
  intros a l. unfold mem_a. rewrite existsb_exists. split.
  - intros [x [Hin Hx]]. apply Nat.eqb_eq in Hx. subst. auto.
  - intro H. exists a. split; auto. apply Nat.eqb_refl.
Qed.

Definition cache_of (e : env) (a : addr) : list string := if mem_a a (e_types e) then [cacheF] else [].
Definition nom_of (e : env) (a : addr) : list string := if mem_a a (e_roots e) then [nomF] else [].

(* shared pods (candidates' pods, cached virtual pods) and the bookkeeping cell are the known exceptions *)
Definition exempt (e : env) (a : addr) : bool := Nat.eqb a (e_book e) || mem_a a (e_pods e).
Definition exempt_pods (e : env) (a : addr) : bool := mem_a a (e_pods e).

(* no marks, no writes to shared pods: nothing but the lazily computed cache field of provider instance types *)
Definition al_strict (e : env) : policy := fun a => Some (cache_of e a).
(* the scheduler proper: additionally the shared pods (findings) *)
Definition al_sched (e : env) : policy := fun a => if exempt_pods e a then None else Some (cache_of e a).
(* a simulation: additionally the bookkeeping cell (finding) *)
Definition al_sim (e : env) : policy := fun a => if exempt e a then None else Some (cache_of e a).
(* a provisioning pass: additionally nominatedUntil of the cluster's own nodes *)
Definition al_prov (e : env) : policy :=
  fun a => if exempt e a then None else Some (nom_of e a ++ cache_of e a).

Lemma cache_allowed : forall e t a, nth_error (e_types e) t = Some a -> In cacheF (cache_of e a).
Proof.
  intros e t a H. apply nth_error_In in H. apply mem_a_In in H. unfold cache_of. rewrite H. left; auto.
Qed.

Lemma nom_allowed : forall e i r, nth_error (e_roots e) i = Some r -> In nomF (nom_of e r).
Proof.
  intros e i r H. apply nth_error_In in H. apply mem_a_In in H. unfold nom_of. rewrite H. left; auto.
Qed.

Lemma pod_exempt : forall e i a, nth_error (e_pods e) i = Some a -> mem_a a (e_pods e) = true.
Proof. intros e i a H. apply nth_error_In in H. apply mem_a_In. exact H. Qed.

Definition no_nom (o : sop) : bool := match o with PNominate _ _ => false | _ => true end.

Lemma permits_prov : forall e o, permits (al_prov e) e o.
Proof.
  intros e [i key|s mask|t|i k|i t|pod]; simpl; auto.
  - intros a H. unfold allows, al_prov. destruct (exempt e a); auto.
    apply in_or_app. right. eapply cache_allowed; eauto.
  - intros a H. unfold al_prov, exempt. rewrite (pod_exempt e i a H). rewrite orb_true_r. reflexivity.
  - intros r H. unfold allows, al_prov. destruct (exempt e r); auto.
    apply in_or_app. left. eapply nom_allowed; eauto.
  - unfold al_prov, exempt. rewrite Nat.eqb_refl. reflexivity.
Qed.

Lemma permits_sim : forall e o, no_nom o = true -> permits (al_sim e) e o.
Proof.
  intros e [i key|s mask|t|i k|i t|pod] H; simpl; auto; try discriminate H.
  - intros a Ha. unfold allows, al_sim. destruct (exempt e a); auto. eapply cache_allowed; eauto.
  - intros a Ha. unfold al_sim, exempt. rewrite (pod_exempt e i a Ha). rewrite orb_true_r. reflexivity.
  - unfold al_sim, exempt. rewrite Nat.eqb_refl. reflexivity.
Qed.

Lemma permits_sched : forall e o, is_sim_op o = true -> permits (al_sched e) e o.
Proof.
  intros e [i key|s mask|t|i k|i t|pod] H; simpl; auto; try discriminate H.
  - intros a Ha. unfold allows, al_sched. destruct (exempt_pods e a); auto. eapply cache_allowed; eauto.
  - intros a Ha. unfold al_sched, exempt_pods. rewrite (pod_exempt e i a Ha). reflexivity.
Qed.

Lemma permits_strict : forall e o, is_sim_op o = true -> touches_shared_pod o = false -> permits (al_strict e) e o.
Proof.
  intros e [i key|s mask|t|i k|i t|pod] H H2; simpl; auto; try discriminate H; try discriminate H2.
  intros a Ha. unfold allows, al_strict. eapply cache_allowed; eauto.
Qed.

Lemma sched_ops_sim : forall l, Forall (fun o => is_sim_op o = true) (sched_ops l).
Proof.
  intro l. unfold sched_ops. induction l as [|o r IH]; simpl; [constructor|].
  destruct (is_sim_op o) eqn:E; auto.
Qed.

(* reading a policy result back in plain terms *)
Lemma rel_cache_of : forall e a c c', rel (Some (cache_of e a)) c c' ->
  (~ In a (e_types e) -> c' = c) /\ same_except_l [cacheF] c c'.
Proof.
  intros e a c c' H. unfold cache_of in H. destruct (mem_a a (e_types e)) eqn:M; simpl in H.
  - split; auto. intro Hn. exfalso. apply Hn. apply mem_a_In. exact M.
  - subst. split; auto using same_except_l_refl.
Qed.

Lemma rel_prov_of : forall e a c c', rel (Some (nom_of e a ++ cache_of e a)) c c' ->
  (~ In a (e_roots e) -> ~ In a (e_types e) -> c' = c) /\ same_except_l [nomF; cacheF] c c'.
Proof.
  intros e a c c' H. unfold nom_of, cache_of in H.
  destruct (mem_a a (e_roots e)) eqn:M1; destruct (mem_a a (e_types e)) eqn:M2; simpl in H.
  - split; auto. intros Hn _. exfalso. apply Hn. apply mem_a_In. exact M1.
  - split; [intros Hn _; exfalso; apply Hn; apply mem_a_In; exact M1|].
    eapply same_except_l_mono; [|exact H]. intros x [Hx|[]]; subst; simpl; auto.
  - split; [intros _ Hn; exfalso; apply Hn; apply mem_a_In; exact M2|].
    eapply same_except_l_mono; [|exact H]. intros x [Hx|[]]; subst; simpl; auto.
  - subst. split; auto using same_except_l_refl.
Qed.

(* ------------------------------------------------------------------ statements about the generated table *)

Lemma generated_table_ok : table_ok table = true.
Proof. vm_compute. reflexivity. Qed.

Definition genv (roots slices types pods : list addr) (book : addr) : env := mkEnv table roots slices types pods book.

(* Scheduler decisions only (ExistingNode.Add, slice filtering and sorting, lazy precompute, and the two in-place
   writes to shared pods): for any number of consecutive runs and any decisions, nothing that existed before is
   written, except the shared pods and the unset cache field of a provider instance type; in particular no
   provider-owned map and no cluster-state cell. *)
Lemma scheduling_writes_fresh_only_l : forall roots slices types pods book h (runs : list (list sop)) a,
  wf h -> a < next h -> ~ In a pods ->
  let h' := run_all (genv roots slices types pods book) h (map sched_ops runs) in
  (~ In a types -> cells h' a = cells h a) /\ same_except_l [cacheF] (cells h a) (cells h' a).
Proof.
  intros roots slices types pods book h runs a Hwf Ha Hp. simpl.
  set (e := genv roots slices types pods book).
  destruct (run_all_x (al_sched e) e (map sched_ops runs) h generated_table_ok Hwf) as [_ [_ X]].
  - apply Forall_forall. intros ops Hin. apply in_map_iff in Hin. destruct Hin as [r [Hr _]]. subst ops.
    eapply Forall_impl; [|apply sched_ops_sim]. intros o Ho. apply permits_sched; auto.
  - specialize (X a Ha). unfold al_sched, exempt_pods in X.
    destruct (mem_a a (e_pods e)) eqn:M; [apply mem_a_In in M; contradiction|].
    exact (rel_cache_of e a _ _ X).
Qed.

Lemma simulate_all_is_run_all : forall e calls h,
  simulate_all e h calls =
  run_all e h (map (fun c => map PMark (pending_marks (s_outcome c) (s_rejected c)) ++ sched_ops (s_decisions c)) calls).
Proof.
  intros e calls. unfold simulate_all, run_all, simulate.
  induction calls as [|c cs IH]; intros h; simpl; auto.
Qed.

Lemma sim_ops_no_nom : forall e c,
  Forall (permits (al_sim e) e) (map PMark (pending_marks (s_outcome c) (s_rejected c)) ++ sched_ops (s_decisions c)).
Proof.
  intros e c. apply Forall_app. split.
  - apply Forall_forall. intros o Hin. apply in_map_iff in Hin. destruct Hin as [p [Hp _]]. subst o.
    apply permits_sim. reflexivity.
  - eapply Forall_impl; [|apply sched_ops_sim]. intros o Ho. apply permits_sim. destruct o; simpl in *; auto; discriminate.
Qed.

Lemma sim_runs_permitted : forall e calls,
  Forall (Forall (permits (al_sim e) e))
    (map (fun c => map PMark (pending_marks (s_outcome c) (s_rejected c)) ++ sched_ops (s_decisions c)) calls).
Proof. intros e calls. induction calls; simpl; constructor; auto using sim_ops_no_nom. Qed.

(* The faithful SimulateScheduling: apart from the bookkeeping cell, the shared pods and the unset cache field of
   provider instance types, every cell that existed before is untouched, for any number of consecutive simulations
   with any outcome. *)
Lemma simulate_writes_fresh_only_l : forall roots slices types pods book h calls a,
  wf h -> a < next h -> a <> book -> ~ In a pods ->
  let h' := simulate_all (genv roots slices types pods book) h calls in
  (~ In a types -> cells h' a = cells h a) /\ same_except_l [cacheF] (cells h a) (cells h' a).
Proof.
  intros roots slices types pods book h calls a Hwf Ha Hb Hp. simpl.
  rewrite simulate_all_is_run_all.
  set (e := genv roots slices types pods book).
  destruct (run_all_x (al_sim e) e _ h generated_table_ok Hwf (sim_runs_permitted e calls))
    as [_ [_ X]].
  specialize (X a Ha). unfold al_sim, exempt in X. simpl in X.
  destruct (Nat.eqb a book) eqn:Eb; [apply Nat.eqb_eq in Eb; contradiction|].
  destruct (mem_a a pods) eqn:M; [apply mem_a_In in M; contradiction|].
  exact (rel_cache_of e a _ _ X).
Qed.

(* The property text at full strength fails on the faithful model, in two ways (both confirmed on the real code):
   (1) a pending pod that fails validation gets its scheduling decision recorded; (2) default topology-spread
   constraints are written into a shared pod.  (A third — preferred node-affinity terms sorted in place — was fixed
   in /repo, bad8fc38d, and left the model.) *)
Definition wit_heap : heap := mkHeap (fun a => match a with 0 => CLeaf [] | 1 => CLeaf [8%Z; 1%Z] | _ => CFree end) 2.

Lemma wit_wf : wf wit_heap.
Proof. intros a Ha. unfold wit_heap in *. simpl in *. destruct a as [|[|a]]; try lia. reflexivity. Qed.

Lemma simulate_changes_nothing_refuted_l :
  exists roots slices types pods book h calls a,
    wf h /\ a < next h /\ ~ In a types /\ ~ In a pods /\
    cells (simulate_all (genv roots slices types pods book) h calls) a <> cells h a.
Proof.
  exists [], [], [], [1], 0, wit_heap, [mkSim OOk [7%Z] []], 0.
  split; [apply wit_wf|split; [simpl; lia|split; [intros []|split]]].
  - intros [H|[]]. discriminate H.
  - vm_compute. discriminate.
Qed.

Lemma simulate_writes_shared_pods_refuted_l :
  exists roots slices types pods book h calls a,
    wf h /\ a < next h /\ a <> book /\
    Forall (fun c => pending_marks (s_outcome c) (s_rejected c) = []) calls /\
    cells (simulate_all (genv roots slices types pods book) h calls) a <> cells h a.
Proof.
  exists [], [], [], [1], 0, wit_heap, [mkSim OOk [] [SInjectTSC 0 5%Z]], 1.
  split; [apply wit_wf|split; [simpl; lia|split; [discriminate|split]]].
  - constructor; [reflexivity|constructor].
  - vm_compute. discriminate.
Qed.

(* ... and holds when no pending pod is marked (no pod fails validation, or the call returns before GetPendingPods)
   and no decision writes a shared pod (no default topology-spread constraints configured). *)
Lemma simulate_changes_nothing_partial_l : forall roots slices types pods book h calls a,
  wf h -> a < next h ->
  Forall (fun c => pending_marks (s_outcome c) (s_rejected c) = [] /\
                   forallb (fun o => negb (touches_shared_pod o)) (s_decisions c) = true) calls ->
  let h' := simulate_all (genv roots slices types pods book) h calls in
  (~ In a types -> cells h' a = cells h a) /\ same_except_l [cacheF] (cells h a) (cells h' a).
Proof.
  intros roots slices types pods book h calls a Hwf Ha Hall. simpl.
  rewrite simulate_all_is_run_all.
  set (e := genv roots slices types pods book).
  destruct (run_all_x (al_strict e) e
              (map (fun c => map PMark (pending_marks (s_outcome c) (s_rejected c)) ++ sched_ops (s_decisions c)) calls)
              h generated_table_ok Hwf) as [_ [_ X]].
  - induction Hall as [|c cs [Hm Hd] _ IH]; simpl; constructor; auto.
    rewrite Hm. simpl. clear Hm. unfold sched_ops.
    induction (s_decisions c) as [|o r IHr]; simpl; [constructor|].
    simpl in Hd. apply andb_true_iff in Hd. destruct Hd as [Ho Hr].
    destruct (is_sim_op o) eqn:E; auto.
    constructor; auto. apply permits_strict; auto. destruct (touches_shared_pod o); auto; discriminate.
  - exact (rel_cache_of e a _ _ (X a Ha)).
Qed.

(* A provisioning pass (and any mix of passes and simulations, any number of them): below the allocation pointer,
   only the bookkeeping cell, the shared pods, the nominatedUntil field of the cluster's own nodes and the unset
   cache field of provider instance types may differ. *)
Lemma provision_writes_only_nomination_and_bookkeeping_l : forall roots slices types pods book h (runs : list (list sop)) a,
  wf h -> a < next h -> a <> book -> ~ In a pods ->
  let h' := run_all (genv roots slices types pods book) h runs in
  (~ In a roots -> ~ In a types -> cells h' a = cells h a) /\ same_except_l [nomF; cacheF] (cells h a) (cells h' a).
Proof.
  intros roots slices types pods book h runs a Hwf Ha Hb Hp. simpl.
  set (e := genv roots slices types pods book).
  destruct (run_all_x (al_prov e) e runs h generated_table_ok Hwf) as [_ [_ X]].
  - apply Forall_forall. intros ops _. apply Forall_forall. intros o _. apply permits_prov.
  - specialize (X a Ha). unfold al_prov, exempt in X. simpl in X.
    destruct (Nat.eqb a book) eqn:Eb; [apply Nat.eqb_eq in Eb; contradiction|].
    destruct (mem_a a pods) eqn:M; [apply mem_a_In in M; contradiction|].
    exact (rel_prov_of e a _ _ X).
Qed.

(* The deep-copy facts are necessary: with a table that leaves hostPortUsage shallow the same run writes the
   cluster's own host-port map. *)
Definition shallow_table : ttable :=
  [("StateNode", [("hostPortUsage", FShallow); ("volumeUsage", FDeepObj "VolumeUsage")]);
   ("HostPortUsage", [("reserved", FDeepLeaf)]);
   ("VolumeUsage", [("volumes", FDeepLeaf); ("podVolumes", FDeepLeaf); ("limits", FDeepLeaf)])].

Definition demo_heap : heap :=
  mkHeap (fun a => match a with
                   | 0 => CLeaf []                                                        (* bookkeeping *)
                   | 1 => CLeaf [11%Z]                                                    (* reserved *)
                   | 2 => CObj "HostPortUsage" [("reserved", VRef (Some 1))]
                   | 3 => CLeaf [] | 4 => CLeaf [] | 5 => CLeaf []                         (* volumes, podVolumes, limits *)
                   | 6 => CObj "VolumeUsage" [("volumes", VRef (Some 3)); ("podVolumes", VRef (Some 4)); ("limits", VRef (Some 5))]
                   | 7 => CObj "StateNode" [("hostPortUsage", VRef (Some 2)); ("volumeUsage", VRef (Some 6));
                                            ("markedForDeletion", VInt 0); ("nominatedUntil", VInt 0)]
                   | 8 => CLeaf [30%Z; 10%Z; 20%Z]                                        (* provider slice *)
                   | 9 => CLeaf [4000%Z; 8192%Z]                                          (* an instance type's Capacity map *)
                   | 10 => CObj "InstanceType" [("Capacity", VRef (Some 9)); ("allocatableOfferings", VRef None)]
                   | _ => CFree end) 11.

Lemma demo_wf : wf demo_heap.
Proof.
  intros a Ha. unfold demo_heap in *. simpl in *.
  do 11 (destruct a as [|a]; [lia|]). reflexivity.
Qed.

Lemma shallow_copy_would_leak_l :
  exists h ops a, wf h /\ a < next h /\ forallb is_sim_op ops = true /\
    cells (run (mkEnv shallow_table [7] [8] [10] [] 0) h ops) a <> cells h a.
Proof.
  exists demo_heap, [SAddPod 0 42%Z], 1. split; [apply demo_wf|split; [simpl; lia|split; [reflexivity|]]].
  vm_compute. discriminate.
Qed.

(* ------------------------------------------------------------------ the oracle *)

Lemma class_eqb_eq : forall a b, class_eqb a b = true <-> a = b.
Proof. intros a b; split; [destruct a, b; simpl; intro H; try discriminate H; reflexivity|intros ->; destruct b; reflexivity]. Qed.

Lemma holds_b_iff_l : forall o, holds_b o = true <-> holds o.
Proof.
  intro o. unfold holds_b, holds. rewrite andb_true_iff, Z.eqb_eq.
  destruct (o_kind o).
  - destruct (o_changed o); split; intros [A B]; split; auto; discriminate.
  - rewrite forallb_forall. split; intros [A B]; split; auto.
    + intros c Hc. specialize (B c Hc). apply orb_true_iff in B. rewrite !class_eqb_eq in B. exact B.
    + intros c Hc. specialize (B c Hc). apply orb_true_iff. rewrite !class_eqb_eq. exact B.
Qed.

(* ------------------------------------------------------------------ nomination / bookkeeping functions *)

Lemma nominate_sim_identity : forall o now w row, nominate KSim o now w row = fst row.
Proof. reflexivity. Qed.

Lemma nominate_only_placed : forall k o now w pre, nominate k o now w (pre, false) = pre.
Proof. intros [|] [| | | | |]; reflexivity. Qed.

Lemma fold_np_untouched : forall now pod nps b,
  (forall np, In np nps -> existsb (fun p => Z.eqb (fst p) pod && negb (snd p)) (snd np) = false) ->
  fold_left (fun b np => mark_np_one now (fst np) (snd np) pod b) nps b = b.
Proof.
  intros now pod nps. induction nps as [|np r IH]; intros b H; simpl; auto.
  unfold mark_np_one at 2. rewrite (H np (or_introl eq_refl)). apply IH. intros; apply H; right; auto.
Qed.

Lemma fold_nc_untouched : forall pod ncs b,
  (forall nc, In nc ncs -> mem_z pod (snd nc) = false) ->
  fold_left (fun b nc => mark_nc_one nc pod b) ncs b = b.
Proof.
  intros pod ncs. induction ncs as [|nc r IH]; intros b H; simpl; auto.
  unfold mark_nc_one at 2. rewrite (H nc (or_introl eq_refl)). apply IH. intros; apply H; right; auto.
Qed.

(* MarkPodSchedulingDecisions leaves alone every pod it was not told about. *)
Lemma apply_mark_untouched_l : forall now m pod b,
  mem_z pod (m_errs m) = false ->
  (forall np, In np (m_np m) -> existsb (fun p => Z.eqb (fst p) pod && negb (snd p)) (snd np) = false) ->
  (forall nc, In nc (m_nc m) -> mem_z pod (snd nc) = false) ->
  apply_mark now m pod b = b.
Proof.
  intros now m pod b He Hnp Hnc. unfold apply_mark, mark_err. rewrite He.
  rewrite fold_np_untouched; auto. apply fold_nc_untouched; auto.
Qed.

(* A simulation's only bookkeeping effect is on the rejected pods. *)
Lemma sim_marks_only_rejected_l : forall o rej res now pod b,
  mem_z pod rej = false -> apply_marks now (marks_of KSim o rej res) pod b = b.
Proof.
  intros o rej res now pod b H. unfold marks_of.
  assert (forall r, mem_z pod r = false ->
            apply_marks now (match r with [] => [] | _ => [rejected_mark r] end) pod b = b) as G.
  { intros r Hr. destruct r; simpl; auto. unfold apply_marks. simpl.
    apply apply_mark_untouched_l; simpl; auto; intros ? []. }
  simpl. destruct o; simpl; try reflexivity; destruct rej as [|z l]; try reflexivity; apply (G (z :: l) H).
Qed.
