(* C18 — proofs.  The frame property of scheduling runs over the heap model: every write of a
   run lands on an address allocated during that run, given the deep-copy facts; a provisioning
   pass additionally writes the nomination field of the cluster's own nodes and the bookkeeping. *)
From Coq Require Import ZArith String List Bool Arith Lia.
From KV Require Import C18.Model gen.C18_deepcopy.
Import ListNotations.
Open Scope string_scope.
Open Scope list_scope.

(* ------------------------------------------------------------------ small facts *)

Lemma lookup_update_other : forall fs n0 v n, n <> n0 -> lookup (update fs n0 v) n = lookup fs n.
Proof.
  induction fs as [|[k x] r IH]; intros n0 v n Hne; simpl; auto.
  destruct (String.eqb k n0) eqn:E; simpl.
  - apply String.eqb_eq in E. subst k.
    destruct (String.eqb n0 n) eqn:E2; auto. apply String.eqb_eq in E2. congruence.
  - destruct (String.eqb k n); auto.
Qed.

Definition is_wpath (ty n : string) : bool :=
  existsb (fun p => String.eqb (fst p) ty && String.eqb (snd p) n) wpaths.

Definition wname (n : string) : bool := existsb (fun p => String.eqb (snd p) n) wpaths.

Lemma is_wpath_wname : forall ty n, is_wpath ty n = true -> wname n = true.
Proof.
  intros ty n H. unfold is_wpath in H. unfold wname.
  apply existsb_exists in H. destruct H as [p [Hin Hp]].
  apply existsb_exists. exists p. split; auto.
  apply andb_true_iff in Hp. tauto.
Qed.

Lemma table_ok_deep : forall t ty n, table_ok t = true -> is_wpath ty n = true -> deep (fact_of t ty n) = true.
Proof.
  intros t ty n Hok Hw. unfold table_ok in Hok. unfold is_wpath in Hw.
  apply existsb_exists in Hw. destruct Hw as [p [Hin Hp]].
  apply andb_true_iff in Hp. destruct Hp as [H1 H2].
  apply String.eqb_eq in H1. apply String.eqb_eq in H2. subst.
  rewrite forallb_forall in Hok. exact (Hok p Hin).
Qed.

(* ------------------------------------------------------------------ frames *)

Definition frame (N : addr) (h h' : heap) : Prop :=
  next h <= next h' /\ forall a, a < N -> cells h' a = cells h a.

Lemma frame_refl : forall N h, frame N h h.
Proof. intros; split; auto. Qed.

Lemma frame_trans : forall N h1 h2 h3, frame N h1 h2 -> frame N h2 h3 -> frame N h1 h3.
Proof.
  intros N h1 h2 h3 [A1 B1] [A2 B2]. split; [lia|].
  intros a Ha. rewrite B2, B1; auto.
Qed.

(* allocator invariant *)
Definition wf (h : heap) : Prop := forall a, next h <= a -> cells h a = CFree.

Definition cell_ok (N : addr) (c : cell) : Prop :=
  match c with
  | CObj ty fs => forall n r, is_wpath ty n = true -> lookup fs n = Some (VRef (Some r)) -> N <= r
  | _ => True
  end.

(* Everything allocated since N only reaches, along the written-through paths, memory allocated since N. *)
Definition St (N : addr) (h : heap) : Prop :=
  wf h /\ N <= next h /\ forall a, N <= a -> cell_ok N (cells h a).

Lemma St_start : forall h, wf h -> St (next h) h.
Proof.
  intros h Hwf. split; [auto|split; [lia|]].
  intros a Ha. rewrite (Hwf a Ha). exact I.
Qed.

Lemma alloc_St : forall N h c, St N h -> cell_ok N c ->
  St N (fst (alloc h c)) /\ frame N h (fst (alloc h c)) /\ N <= snd (alloc h c) /\ next h <= snd (alloc h c).
Proof.
  intros N h c [Hwf [HN Hok]] Hc. unfold alloc, St, wf, frame; simpl.
  repeat split.
  - intros a Ha. destruct (Nat.eqb a (next h)) eqn:E.
    + apply Nat.eqb_eq in E. lia.
    + apply Hwf. lia.
  - lia.
  - intros a Ha. destruct (Nat.eqb a (next h)); auto.
  - lia.
  - intros a Ha. destruct (Nat.eqb a (next h)) eqn:E; auto. apply Nat.eqb_eq in E. lia.
  - lia.
  - lia.
Qed.

Lemma write_St : forall N h a c, St N h -> a < next h -> cell_ok N c -> N <= a ->
  St N (write h a c) /\ frame N h (write h a c).
Proof.
  intros N h a c [Hwf [HN Hok]] Ha Hc HNa. unfold write, St, wf, frame; simpl.
  repeat split.
  - intros x Hx. destruct (Nat.eqb x a) eqn:E.
    + apply Nat.eqb_eq in E. lia.
    + apply Hwf; auto.
  - auto.
  - intros x Hx. destruct (Nat.eqb x a); auto.
  - lia.
  - intros x Hx. destruct (Nat.eqb x a) eqn:E; auto. apply Nat.eqb_eq in E. lia.
Qed.

Lemma write_St_only : forall N h a c, St N h -> a < next h -> (N <= a -> cell_ok N c) -> St N (write h a c).
Proof.
  intros N h a c [Hwf [HN Hok]] Ha Hc. unfold write, St, wf; simpl.
  repeat split.
  - intros x Hx. destruct (Nat.eqb x a) eqn:E.
    + apply Nat.eqb_eq in E. lia.
    + apply Hwf; auto.
  - auto.
  - intros x Hx. destruct (Nat.eqb x a) eqn:E; auto. apply Nat.eqb_eq in E. subst. auto.
Qed.

Lemma wf_alloc_lt : forall h a, wf h -> cells h a <> CFree -> a < next h.
Proof.
  intros h a Hwf Hne. destruct (lt_dec a (next h)); auto.
  exfalso. apply Hne. apply Hwf. lia.
Qed.

Lemma leaf_append_St : forall N h a k, St N h -> N <= a ->
  St N (leaf_append h a k) /\ frame N h (leaf_append h a k).
Proof.
  intros N h a k HSt HNa. unfold leaf_append.
  destruct (cells h a) eqn:E; try (split; [auto|apply frame_refl]).
  apply write_St; auto.
  - apply wf_alloc_lt; [apply HSt|congruence].
  - exact I.
Qed.

Lemma set_field_St : forall N h a n v, St N h -> N <= a -> wname n = false ->
  St N (set_field h a n v) /\ frame N h (set_field h a n v).
Proof.
  intros N h a n v HSt HNa Hn. unfold set_field.
  destruct (cells h a) eqn:E; try (split; [auto|apply frame_refl]).
  apply write_St; auto.
  - apply wf_alloc_lt; [apply HSt|congruence].
  - simpl. intros m r Hw Hl.
    assert (m <> n) as Hne. { intro; subst. apply is_wpath_wname in Hw. congruence. }
    rewrite lookup_update_other in Hl; auto.
    destruct HSt as [_ [_ Hok]]. specialize (Hok a HNa). rewrite E in Hok. simpl in Hok. eauto.
Qed.

Lemma get_field_ok : forall N h a ty n r, St N h -> N <= a -> is_wpath ty n = true ->
  get_field h a ty n = Some r -> N <= r.
Proof.
  intros N h a ty n r [_ [_ Hok]] HNa Hw Hg. unfold get_field in Hg.
  specialize (Hok a HNa).
  destruct (cells h a) eqn:E; try discriminate.
  destruct (String.eqb ty0 ty) eqn:Et; try discriminate.
  apply String.eqb_eq in Et. subst ty0.
  destruct (lookup fs n) as [[z|r']|] eqn:El; try discriminate. subst r'.
  simpl in Hok. eauto.
Qed.

(* ------------------------------------------------------------------ DeepCopy allocates; deep facts give fresh references *)

Definition val_fresh (b : addr) (v : val) : Prop :=
  match v with VRef (Some r) => b <= r | _ => True end.

Definition good (N : addr) (h h' : heap) : Prop := St N h' /\ frame N h h'.

Lemma good_refl : forall N h, St N h -> good N h h.
Proof. intros; split; auto using frame_refl. Qed.

Lemma good_next : forall N h h', good N h h' -> next h <= next h'.
Proof. intros N h h' [_ [H _]]; auto. Qed.

Lemma copy_leaf_good : forall N h a h' v, St N h -> copy_leaf h a = (h', v) ->
  good N h h' /\ val_fresh (next h) v.
Proof.
  intros N h a h' v HSt H. unfold copy_leaf in H.
  destruct (cells h a) eqn:E; try (inversion H; subst; split; [apply good_refl; auto|exact I]).
  pose proof (alloc_St N h (CLeaf p) HSt I) as [A [B [C D]]].
  destruct (alloc h (CLeaf p)) as [h1 a1] eqn:Ea. inversion H; subst. simpl in *.
  split; [split; auto|auto].
Qed.

Lemma copy_field_flat_good : forall N f h v h' v', St N h -> copy_field_flat f h v = (h', v') ->
  good N h h' /\ (deep f = true -> val_fresh (next h) v').
Proof.
  intros N f h v h' v' HSt H.
  destruct f; destruct v as [z|[a|]]; simpl in H;
    try (inversion H; subst; split; [apply good_refl; auto|intro D; try discriminate D; exact I]);
    try (destruct (copy_leaf_good N h a h' v' HSt H) as [G F]; split; auto).
Qed.

Lemma copy_fields_flat_good : forall N t fs h h' fs', St N h -> copy_fields_flat t h fs = (h', fs') ->
  good N h h' /\
  (forall n r, deep (fact_in t n) = true -> lookup fs' n = Some (VRef (Some r)) -> next h <= r).
Proof.
  intros N t fs. induction fs as [|[n0 v] rest IH]; intros h h' fs' HSt H; simpl in H.
  - inversion H; subst. split; [apply good_refl; auto|]. intros n r _ Hl. discriminate Hl.
  - destruct (copy_field_flat (fact_in t n0) h v) as [h1 v1] eqn:E1.
    destruct (copy_fields_flat t h1 rest) as [h2 r2] eqn:E2.
    inversion H; subst. clear H.
    destruct (copy_field_flat_good N _ _ _ _ _ HSt E1) as [[S1 F1] V1].
    destruct (IH _ _ _ S1 E2) as [[S2 F2] V2].
    split; [split; [auto|eapply frame_trans; eauto]|].
    intros n r Hd Hl. simpl in Hl.
    destruct (String.eqb n0 n) eqn:En.
    + apply String.eqb_eq in En. subst n0. inversion Hl; subst v1. apply V1 in Hd. exact Hd.
    + apply V2 in Hl; auto. destruct F1 as [Hn _]. lia.
Qed.

Lemma copy_obj_flat_good : forall N tbl h a h' v, table_ok tbl = true -> St N h -> copy_obj_flat tbl h a = (h', v) ->
  good N h h' /\ val_fresh (next h) v.
Proof.
  intros N tbl h a h' v Hok HSt H. unfold copy_obj_flat in H.
  destruct (cells h a) eqn:E.
  - inversion H; subst. split; [apply good_refl; auto|exact I].
  - pose proof (alloc_St N h (CLeaf p) HSt I) as [A [B [C D]]].
    destruct (alloc h (CLeaf p)) as [h1 a1] eqn:Ea. inversion H; subst. simpl in *. split; [split; auto|auto].
  - destruct (copy_fields_flat (facts_of tbl ty) h fs) as [h1 fs1] eqn:E1.
    destruct (copy_fields_flat_good N _ _ _ _ _ HSt E1) as [[S1 F1] V1].
    assert (cell_ok N (CObj ty fs1)) as Hc.
    { simpl. intros n r Hw Hl. apply (table_ok_deep tbl) in Hw; auto.
      apply V1 in Hl; auto. destruct HSt as [_ [HN _]]. lia. }
    pose proof (alloc_St N h1 (CObj ty fs1) S1 Hc) as [A [B [C D]]].
    destruct (alloc h1 (CObj ty fs1)) as [h2 a2] eqn:Ea. inversion H; subst. simpl in *.
    split; [split; [auto|eapply frame_trans; eauto]|]. destruct F1 as [Hn _]. lia.
Qed.

Lemma copy_field_top_good : forall N tbl f h v h' v', table_ok tbl = true -> St N h ->
  copy_field_top tbl f h v = (h', v') ->
  good N h h' /\ (deep f = true -> val_fresh (next h) v').
Proof.
  intros N tbl f h v h' v' Hok HSt H.
  destruct f; destruct v as [z|[a|]]; simpl in H;
    try (inversion H; subst; split; [apply good_refl; auto|intro D; try discriminate D; exact I]).
  - destruct (copy_leaf_good N h a h' v' HSt H) as [G F]; split; auto.
  - destruct (copy_obj_flat_good N tbl h a h' v' Hok HSt H) as [G F]; split; auto.
Qed.

Lemma copy_fields_top_good : forall N tbl t fs h h' fs', table_ok tbl = true -> St N h ->
  copy_fields_top tbl t h fs = (h', fs') ->
  good N h h' /\
  (forall n r, deep (fact_in t n) = true -> lookup fs' n = Some (VRef (Some r)) -> next h <= r).
Proof.
  intros N tbl t fs. induction fs as [|[n0 v] rest IH]; intros h h' fs' Hok HSt H; simpl in H.
  - inversion H; subst. split; [apply good_refl; auto|]. intros n r _ Hl. discriminate Hl.
  - destruct (copy_field_top tbl (fact_in t n0) h v) as [h1 v1] eqn:E1.
    destruct (copy_fields_top tbl t h1 rest) as [h2 r2] eqn:E2.
    inversion H; subst. clear H.
    destruct (copy_field_top_good N _ _ _ _ _ _ Hok HSt E1) as [[S1 F1] V1].
    destruct (IH _ _ _ Hok S1 E2) as [[S2 F2] V2].
    split; [split; [auto|eapply frame_trans; eauto]|].
    intros n r Hd Hl. simpl in Hl.
    destruct (String.eqb n0 n) eqn:En.
    + apply String.eqb_eq in En. subst n0. inversion Hl; subst v1. apply V1 in Hd. exact Hd.
    + apply V2 in Hl; auto. destruct F1 as [Hn _]. lia.
Qed.

Definition opt_ge (N : addr) (o : option addr) : Prop := match o with Some c => N <= c | None => True end.

Lemma copy_node_good : forall N tbl h a h' c, table_ok tbl = true -> St N h -> copy_node tbl h a = (h', c) ->
  good N h h' /\ opt_ge N c.
Proof.
  intros N tbl h a h' c Hok HSt H. unfold copy_node in H.
  destruct (cells h a) eqn:E; try (inversion H; subst; split; [apply good_refl; auto|exact I]).
  destruct (copy_fields_top tbl (facts_of tbl ty) h fs) as [h1 fs1] eqn:E1.
  destruct (copy_fields_top_good N _ _ _ _ _ _ Hok HSt E1) as [[S1 F1] V1].
  assert (cell_ok N (CObj ty fs1)) as Hc.
  { simpl. intros n r Hw Hl. apply (table_ok_deep tbl) in Hw; auto.
    apply V1 in Hl; auto. destruct HSt as [_ [HN _]]. lia. }
  pose proof (alloc_St N h1 (CObj ty fs1) S1 Hc) as [A [B [C D]]].
  destruct (alloc h1 (CObj ty fs1)) as [h2 a2] eqn:Ea. inversion H; subst. simpl in *.
  split; [split; [auto|eapply frame_trans; eauto]|auto].
Qed.

Lemma copy_nodes_good : forall N tbl roots h h' cs, table_ok tbl = true -> St N h ->
  copy_nodes tbl h roots = (h', cs) ->
  good N h h' /\ Forall (opt_ge N) cs.
Proof.
  intros N tbl roots. induction roots as [|r rs IH]; intros h h' cs Hok HSt H; simpl in H.
  - inversion H; subst. split; [apply good_refl; auto|constructor].
  - destruct (copy_node tbl h r) as [h1 c] eqn:E1.
    destruct (copy_nodes tbl h1 rs) as [h2 cs2] eqn:E2. inversion H; subst. clear H.
    destruct (copy_node_good N _ _ _ _ _ Hok HSt E1) as [[S1 F1] C1].
    destruct (IH _ _ _ Hok S1 E2) as [[S2 F2] C2].
    split; [split; [auto|eapply frame_trans; eauto]|constructor; auto].
Qed.

(* ------------------------------------------------------------------ the scheduler's steps *)

Lemma wpath_sn_hp : is_wpath "StateNode" "hostPortUsage" = true. Proof. reflexivity. Qed.
Lemma wpath_sn_vu : is_wpath "StateNode" "volumeUsage" = true. Proof. reflexivity. Qed.
Lemma wpath_hp_res : is_wpath "HostPortUsage" "reserved" = true. Proof. reflexivity. Qed.
Lemma wpath_vu_pv : is_wpath "VolumeUsage" "podVolumes" = true. Proof. reflexivity. Qed.
Lemma wname_volumes : wname "volumes" = false. Proof. reflexivity. Qed.
Lemma wname_nominated : wname "nominatedUntil" = false. Proof. reflexivity. Qed.

Lemma en_add_good : forall N h c key, St N h -> N <= c -> good N h (en_add h c key).
Proof.
  intros N h c key HSt HNc. unfold en_add.
  set (h1 := match get_field h c "StateNode" "hostPortUsage" with
             | Some hp => match get_field h hp "HostPortUsage" "reserved" with
                          | Some m => leaf_append h m key | None => h end
             | None => h end).
  assert (good N h h1) as G1.
  { subst h1. destruct (get_field h c "StateNode" "hostPortUsage") as [hp|] eqn:E1; [|apply good_refl; auto].
    pose proof (get_field_ok N h c _ _ hp HSt HNc wpath_sn_hp E1) as Hhp.
    destruct (get_field h hp "HostPortUsage" "reserved") as [m|] eqn:E2; [|apply good_refl; auto].
    pose proof (get_field_ok N h hp _ _ m HSt Hhp wpath_hp_res E2) as Hm.
    destruct (leaf_append_St N h m key HSt Hm); split; auto. }
  destruct G1 as [S1 F1].
  destruct (get_field h1 c "StateNode" "volumeUsage") as [vu|] eqn:E3; [|split; auto].
  pose proof (get_field_ok N h1 c _ _ vu S1 HNc wpath_sn_vu E3) as Hvu.
  set (h2 := match get_field h1 vu "VolumeUsage" "podVolumes" with
             | Some m => leaf_append h1 m key | None => h1 end).
  assert (good N h1 h2) as G2.
  { subst h2. destruct (get_field h1 vu "VolumeUsage" "podVolumes") as [m|] eqn:E4; [|apply good_refl; auto].
    pose proof (get_field_ok N h1 vu _ _ m S1 Hvu wpath_vu_pv E4) as Hm.
    destruct (leaf_append_St N h1 m key S1 Hm); split; auto. }
  destruct G2 as [S2 F2].
  set (old := match get_field h2 vu "VolumeUsage" "volumes" with Some m => leaf_of h2 m | None => [] end).
  pose proof (alloc_St N h2 (CLeaf (old ++ [key])) S2 I) as [A [B [C D]]].
  destruct (alloc h2 (CLeaf (old ++ [key]))) as [h3 u] eqn:Ea. simpl in *.
  destruct (set_field_St N h3 vu "volumes" (VRef (Some u)) A Hvu wname_volumes) as [S4 F4].
  split; auto.
  eapply frame_trans; [exact F1|]. eapply frame_trans; [exact F2|]. eapply frame_trans; [exact B|exact F4].
Qed.

Lemma new_claim_good : forall N h s mask, St N h -> good N h (new_claim h s mask).
Proof.
  intros N h s mask HSt. unfold new_claim.
  pose proof (alloc_St N h (CLeaf (mask_filter (leaf_of h s) mask)) HSt I) as [A [B [C D]]].
  destruct (alloc h (CLeaf (mask_filter (leaf_of h s) mask))) as [h1 u] eqn:Ea. simpl in *.
  assert (u < next h1) as Hu.
  { unfold alloc in Ea. inversion Ea; subst. simpl. lia. }
  destruct (write_St N h1 u (CLeaf (sort_z (leaf_of h1 u))) A Hu I C) as [S2 F2].
  split; auto. eapply frame_trans; eauto.
Qed.

(* what a provisioning step may change below N: the bookkeeping cell, and the nomination field of a cluster node *)
Definition same_except (n : string) (c c' : cell) : Prop :=
  match c, c' with
  | CObj ty fs, CObj ty' fs' => ty' = ty /\ forall m, m <> n -> lookup fs' m = lookup fs m
  | _, _ => c' = c
  end.

Lemma same_except_refl : forall n c, same_except n c c.
Proof. intros n [| |ty fs]; simpl; auto. Qed.

Lemma same_except_trans : forall n c1 c2 c3, same_except n c1 c2 -> same_except n c2 c3 -> same_except n c1 c3.
Proof.
  intros n c1 c2 c3 H1 H2.
  destruct c1 as [|p1|t1 f1]; destruct c2 as [|p2|t2 f2]; simpl in H1; try discriminate H1; try (inversion H1; subst);
    destruct c3 as [|p3|t3 f3]; simpl in H2; try discriminate H2; try (inversion H2; subst); simpl; auto.
  destruct H1 as [E1 L1]. destruct H2 as [E2 L2]. subst. split; auto.
  intros m Hm. rewrite L2, L1; auto.
Qed.

Definition pframe (e : env) (N : addr) (h h' : heap) : Prop :=
  next h <= next h' /\
  forall a, a < N -> a <> e_book e ->
    same_except "nominatedUntil" (cells h a) (cells h' a) /\ (~ In a (e_roots e) -> cells h' a = cells h a).

Lemma frame_pframe : forall e N h h', frame N h h' -> pframe e N h h'.
Proof.
  intros e N h h' [A B]. split; auto. intros a Ha _. rewrite (B a Ha). split; auto using same_except_refl.
Qed.

Lemma pframe_trans : forall e N h1 h2 h3, pframe e N h1 h2 -> pframe e N h2 h3 -> pframe e N h1 h3.
Proof.
  intros e N h1 h2 h3 [A1 B1] [A2 B2]. split; [lia|].
  intros a Ha Hb. destruct (B1 a Ha Hb) as [X1 Y1]. destruct (B2 a Ha Hb) as [X2 Y2].
  split; [eapply same_except_trans; eauto|]. intro Hn. rewrite Y2, Y1; auto.
Qed.

Lemma pframe_refl : forall e N h, pframe e N h h.
Proof. intros. apply frame_pframe, frame_refl. Qed.

Lemma set_nominated : forall e N h r t, St N h -> In r (e_roots e) ->
  St N (set_field h r "nominatedUntil" (VInt t)) /\ pframe e N h (set_field h r "nominatedUntil" (VInt t)).
Proof.
  intros e N h r t HSt Hin. unfold set_field.
  destruct (cells h r) eqn:E; try (split; [auto|apply pframe_refl]).
  assert (r < next h) as Hr by (apply wf_alloc_lt; [apply HSt|congruence]).
  split.
  - apply write_St_only; auto. intros Hx. simpl. intros m q Hw Hl.
    assert (m <> "nominatedUntil") as Hne.
    { intro; subst. apply is_wpath_wname in Hw. rewrite wname_nominated in Hw. discriminate. }
    rewrite lookup_update_other in Hl; auto.
    destruct HSt as [_ [_ Hok]]. specialize (Hok r Hx). rewrite E in Hok. simpl in Hok. eauto.
  - unfold write, pframe; simpl. split; [lia|].
    intros a Ha Hb. destruct (Nat.eqb a r) eqn:Ex.
    + apply Nat.eqb_eq in Ex. subst a. rewrite E. simpl. split.
      * split; auto. intros m Hm. apply lookup_update_other; auto.
      * intro Hn. contradiction.
    + split; auto using same_except_refl.
Qed.

Lemma mark_pframe : forall e N h pod, St N h ->
  St N (leaf_append h (e_book e) pod) /\ pframe e N h (leaf_append h (e_book e) pod).
Proof.
  intros e N h pod HSt. unfold leaf_append.
  destruct (cells h (e_book e)) eqn:E; try (split; [auto|apply pframe_refl]).
  assert (e_book e < next h) as Hr by (apply wf_alloc_lt; [apply HSt|congruence]).
  split.
  - apply write_St_only; auto. intros _. exact I.
  - unfold write, pframe; simpl. split; [lia|].
    intros a Ha Hb. destruct (Nat.eqb a (e_book e)) eqn:Ex.
    + apply Nat.eqb_eq in Ex. contradiction.
    + split; auto using same_except_refl.
Qed.

Lemma step_good : forall e N copies h o, St N h -> Forall (opt_ge N) copies ->
  St N (step e copies h o) /\ pframe e N h (step e copies h o) /\
  (is_sim_op o = true -> frame N h (step e copies h o)).
Proof.
  intros e N copies h o HSt Hc. destruct o as [i key|s mask|i t|pod]; simpl.
  - destruct (nth i copies None) as [c|] eqn:En.
    + assert (N <= c) as Hge.
      { destruct (nth_in_or_default i copies None) as [Hin|Hd]; [|rewrite En in Hd; discriminate].
        rewrite Forall_forall in Hc. specialize (Hc _ Hin). rewrite En in Hc. exact Hc. }
      destruct (en_add_good N h c key HSt Hge) as [S F]. split; [auto|split; [apply frame_pframe; auto|auto]].
    + split; [auto|split; [apply pframe_refl|intros _; apply frame_refl]].
  - destruct (nth_error (e_slices e) s) as [a|].
    + destruct (new_claim_good N h a mask HSt) as [S F]. split; [auto|split; [apply frame_pframe; auto|auto]].
    + split; [auto|split; [apply pframe_refl|intros _; apply frame_refl]].
  - destruct (nth_error (e_roots e) i) as [r|] eqn:En.
    + apply nth_error_In in En. destruct (set_nominated e N h r t HSt En) as [S P].
      split; [auto|split; [auto|intro D; discriminate D]].
    + split; [auto|split; [apply pframe_refl|intro D; discriminate D]].
  - destruct (mark_pframe e N h pod HSt) as [S P]. split; [auto|split; [auto|intro D; discriminate D]].
Qed.

Lemma steps_good : forall e N copies ops h, St N h -> Forall (opt_ge N) copies ->
  St N (fold_left (step e copies) ops h) /\ pframe e N h (fold_left (step e copies) ops h) /\
  (forallb is_sim_op ops = true -> frame N h (fold_left (step e copies) ops h)).
Proof.
  intros e N copies ops. induction ops as [|o ops IH]; intros h HSt Hc; simpl.
  - split; [auto|split; [apply pframe_refl|intros _; apply frame_refl]].
  - destruct (step_good e N copies h o HSt Hc) as [S1 [P1 F1]].
    destruct (IH _ S1 Hc) as [S2 [P2 F2]].
    split; [auto|split; [eapply pframe_trans; eauto|]].
    intro Hall. apply andb_true_iff in Hall. destruct Hall as [Ho Hops].
    eapply frame_trans; eauto.
Qed.

(* one run: nothing allocated before the run is written, except (provisioning) nominations and bookkeeping *)
Lemma run_good : forall e h ops, table_ok (e_tbl e) = true -> wf h ->
  wf (run e h ops) /\ pframe e (next h) h (run e h ops) /\
  (forallb is_sim_op ops = true -> frame (next h) h (run e h ops)).
Proof.
  intros e h ops Hok Hwf. unfold run.
  destruct (copy_nodes (e_tbl e) h (e_roots e)) as [h1 copies] eqn:Ec.
  destruct (copy_nodes_good (next h) _ _ _ _ _ Hok (St_start h Hwf) Ec) as [[S1 F1] C1].
  destruct (steps_good e (next h) copies ops h1 S1 C1) as [S2 [P2 F2]].
  split; [apply S2|split].
  - eapply pframe_trans; [apply frame_pframe; exact F1|exact P2].
  - intro Hall. eapply frame_trans; eauto.
Qed.

Lemma frame_weaken : forall N M h h', M <= N -> frame N h h' -> frame M h h'.
Proof. intros N M h h' HM [A B]. split; auto. intros a Ha. apply B. lia. Qed.

Lemma pframe_weaken : forall e N M h h', M <= N -> pframe e N h h' -> pframe e M h h'.
Proof. intros e N M h h' HM [A B]. split; auto. intros a Ha. apply B. lia. Qed.

Lemma run_all_good : forall e runs h, table_ok (e_tbl e) = true -> wf h ->
  wf (run_all e h runs) /\ pframe e (next h) h (run_all e h runs) /\
  (forallb (forallb is_sim_op) runs = true -> frame (next h) h (run_all e h runs)).
Proof.
  intros e runs. induction runs as [|ops runs IH]; intros h Hok Hwf; simpl.
  - split; [auto|split; [apply pframe_refl|intros _; apply frame_refl]].
  - destruct (run_good e h ops Hok Hwf) as [W1 [P1 F1]].
    destruct (IH _ Hok W1) as [W2 [P2 F2]].
    assert (next h <= next (run e h ops)) as Hn by (destruct P1; auto).
    split; [auto|split].
    + eapply pframe_trans; [exact P1|]. eapply pframe_weaken; eauto.
    + intro Hall. apply andb_true_iff in Hall. destruct Hall as [Ho Hr].
      eapply frame_trans; [apply F1; auto|]. eapply frame_weaken; [exact Hn|]. apply F2; auto.
Qed.

(* ------------------------------------------------------------------ statements about the generated table *)

Lemma generated_table_ok : table_ok table = true.
Proof. vm_compute. reflexivity. Qed.

Definition genv (roots slices : list addr) (book : addr) : env := mkEnv table roots slices book.

(* Scheduler decisions only (no bookkeeping, no nomination): for any number of consecutive runs, any decisions,
   nothing that existed before is written. *)
Lemma scheduling_writes_fresh_only_l : forall roots slices book h (runs : list (list sop)) a,
  wf h -> a < next h ->
  cells (run_all (genv roots slices book) h (map sched_ops runs)) a = cells h a.
Proof.
  intros roots slices book h runs a Hwf Ha.
  destruct (run_all_good (genv roots slices book) (map sched_ops runs) h generated_table_ok Hwf) as [_ [_ F]].
  apply F; auto.
  clear. induction runs as [|r rs IH]; simpl; auto.
  apply andb_true_iff. split; auto.
  unfold sched_ops. induction r as [|o r IHr]; simpl; auto.
  destruct (is_sim_op o) eqn:E; simpl; auto. rewrite E. auto.
Qed.

Lemma simulate_all_is_run_all : forall e calls h,
  simulate_all e h calls =
  run_all e h (map (fun c => map PMark (pending_marks (s_outcome c) (s_rejected c)) ++ sched_ops (s_decisions c)) calls).
Proof.
  intros e calls. unfold simulate_all, run_all, simulate.
  induction calls as [|c cs IH]; intros h; simpl; auto.
Qed.

Definition no_nom (o : sop) : bool := match o with PNominate _ _ => false | _ => true end.

Lemma step_no_nom : forall e N copies h o x, St N h -> Forall (opt_ge N) copies -> no_nom o = true ->
  x < N -> x <> e_book e -> cells (step e copies h o) x = cells h x.
Proof.
  intros e N copies h o x HSt Hc Ho Hx Hxb.
  destruct (step_good e N copies h o HSt Hc) as [_ [_ F]].
  destruct o as [i key|s mask|i t|pod]; try discriminate Ho.
  - destruct (F eq_refl) as [_ B]. apply B; auto.
  - destruct (F eq_refl) as [_ B]. apply B; auto.
  - simpl. unfold leaf_append. destruct (cells h (e_book e)); auto.
    unfold write; simpl. destruct (Nat.eqb x (e_book e)) eqn:Ex; auto.
    apply Nat.eqb_eq in Ex. contradiction.
Qed.

Lemma steps_no_nom : forall e N copies ops h x, St N h -> Forall (opt_ge N) copies -> forallb no_nom ops = true ->
  x < N -> x <> e_book e -> cells (fold_left (step e copies) ops h) x = cells h x.
Proof.
  intros e N copies ops. induction ops as [|o ops IH]; intros h x HSt Hc Hn Hx Hxb; simpl; auto.
  simpl in Hn. apply andb_true_iff in Hn. destruct Hn as [Ho Hn].
  destruct (step_good e N copies h o HSt Hc) as [S1 _].
  rewrite IH; auto. apply (step_no_nom e N); auto.
Qed.

Lemma run_no_nom : forall e h ops x, table_ok (e_tbl e) = true -> wf h -> forallb no_nom ops = true ->
  x < next h -> x <> e_book e -> cells (run e h ops) x = cells h x.
Proof.
  intros e h ops x Hok Hwf Hn Hx Hxb. unfold run.
  destruct (copy_nodes (e_tbl e) h (e_roots e)) as [h1 copies] eqn:Ec.
  destruct (copy_nodes_good (next h) _ _ _ _ _ Hok (St_start h Hwf) Ec) as [[S1 [_ B1]] C1].
  rewrite (steps_no_nom e (next h)); auto.
Qed.

Lemma run_all_no_nom : forall e runs h x, table_ok (e_tbl e) = true -> wf h ->
  forallb (forallb no_nom) runs = true ->
  x < next h -> x <> e_book e -> cells (run_all e h runs) x = cells h x.
Proof.
  intros e runs. induction runs as [|ops runs IH]; intros h x Hok Hwf Hn Hx Hxb; simpl; auto.
  simpl in Hn. apply andb_true_iff in Hn. destruct Hn as [Ho Hn].
  destruct (run_good e h ops Hok Hwf) as [W1 [[N1 _] _]].
  rewrite IH; auto; [|lia]. apply run_no_nom; auto.
Qed.

(* The faithful SimulateScheduling (which marks rejected pending pods): everything except the bookkeeping cell is
   untouched, for any number of consecutive simulations with any outcome. *)
Lemma simulate_writes_fresh_only_l : forall roots slices book h calls a,
  wf h -> a < next h -> a <> book ->
  cells (simulate_all (genv roots slices book) h calls) a = cells h a.
Proof.
  intros roots slices book h calls a Hwf Ha Hb.
  rewrite simulate_all_is_run_all.
  apply run_all_no_nom; auto; try apply generated_table_ok.
  clear. induction calls as [|c cs IH]; simpl; auto.
  apply andb_true_iff. split; auto.
  rewrite forallb_app. apply andb_true_iff. split.
  - induction (pending_marks (s_outcome c) (s_rejected c)); simpl; auto.
  - unfold sched_ops. induction (s_decisions c) as [|o r IHr]; simpl; auto.
    destruct o; simpl; auto.
Qed.

(* The property text at full strength fails on the faithful model: one simulation of a cluster with a pending pod
   that fails validation changes the cluster's pod bookkeeping. *)
Definition wit_heap : heap := mkHeap (fun a => match a with 0 => CLeaf [] | _ => CFree end) 1.

Lemma simulate_changes_nothing_refuted_l :
  exists roots slices book h calls a,
    wf h /\ a < next h /\ cells (simulate_all (genv roots slices book) h calls) a <> cells h a.
Proof.
  exists [], [], 0, wit_heap, [mkSim OOk [7%Z] []], 0.
  split; [|split].
  - intros a Ha. unfold wit_heap in *. simpl in *. destruct a; [lia|reflexivity].
  - simpl. lia.
  - vm_compute. discriminate.
Qed.

(* ... and holds when no pending pod is marked: no pod fails validation, or the call returns before
   GetPendingPods (candidate already deleting, listing failed). *)
Lemma simulate_changes_nothing_partial_l : forall roots slices book h calls a,
  wf h -> a < next h ->
  Forall (fun c => pending_marks (s_outcome c) (s_rejected c) = []) calls ->
  cells (simulate_all (genv roots slices book) h calls) a = cells h a.
Proof.
  intros roots slices book h calls a Hwf Ha Hall.
  rewrite simulate_all_is_run_all.
  replace (map (fun c => map PMark (pending_marks (s_outcome c) (s_rejected c)) ++ sched_ops (s_decisions c)) calls)
    with (map sched_ops (map s_decisions calls)).
  - apply scheduling_writes_fresh_only_l; auto.
  - rewrite map_map. induction Hall as [|c cs Hc _ IH]; simpl; auto.
    rewrite Hc. simpl. rewrite IH. reflexivity.
Qed.

(* A provisioning pass (and any mix of passes and simulations, any number of them): below the allocation pointer,
   only the bookkeeping cell and the nominatedUntil field of the cluster's own nodes may differ. *)
Lemma provision_writes_only_nomination_and_bookkeeping_l : forall roots slices book h (runs : list (list sop)) a,
  wf h -> a < next h -> a <> book ->
  same_except "nominatedUntil" (cells h a) (cells (run_all (genv roots slices book) h runs) a) /\
  (~ In a roots -> cells (run_all (genv roots slices book) h runs) a = cells h a).
Proof.
  intros roots slices book h runs a Hwf Ha Hb.
  destruct (run_all_good (genv roots slices book) runs h generated_table_ok Hwf) as [_ [[_ P] _]].
  exact (P a Ha Hb).
Qed.

Lemma provision_is_run : forall e h o rej dec marked nom,
  exists ops, provision e h o rej dec marked nom = run e h ops.
Proof. intros. eexists. reflexivity. Qed.

(* The deep-copy facts are necessary: with a table that leaves hostPortUsage shallow the same run writes the
   cluster's own host-port map. *)
Definition shallow_table : ttable :=
  [("StateNode", [("hostPortUsage", FShallow); ("volumeUsage", FDeepObj "VolumeUsage")]);
   ("HostPortUsage", [("reserved", FDeepLeaf)]);
   ("VolumeUsage", [("volumes", FDeepLeaf); ("podVolumes", FDeepLeaf); ("limits", FDeepLeaf)])].

Definition demo_heap : heap :=
  mkHeap (fun a => match a with
                   | 0 => CLeaf []                                                        (* bookkeeping *)
                   | 1 => CLeaf [11%Z]                                                    (* reserved *)
                   | 2 => CObj "HostPortUsage" [("reserved", VRef (Some 1))]
                   | 3 => CLeaf [] | 4 => CLeaf [] | 5 => CLeaf []                         (* volumes, podVolumes, limits *)
                   | 6 => CObj "VolumeUsage" [("volumes", VRef (Some 3)); ("podVolumes", VRef (Some 4)); ("limits", VRef (Some 5))]
                   | 7 => CObj "StateNode" [("hostPortUsage", VRef (Some 2)); ("volumeUsage", VRef (Some 6));
                                            ("markedForDeletion", VInt 0); ("nominatedUntil", VInt 0)]
                   | 8 => CLeaf [30%Z; 10%Z; 20%Z]                                        (* provider slice *)
                   | _ => CFree end) 9.

Lemma demo_wf : wf demo_heap.
Proof.
  intros a Ha. unfold demo_heap in *. simpl in *.
  do 9 (destruct a as [|a]; [lia|]). reflexivity.
Qed.

Lemma shallow_copy_would_leak_l :
  exists h ops a, wf h /\ a < next h /\ forallb is_sim_op ops = true /\
    cells (run (mkEnv shallow_table [7] [8] 0) h ops) a <> cells h a.
Proof.
  exists demo_heap, [SAddPod 0 42%Z], 1. split; [apply demo_wf|split; [simpl; lia|split; [reflexivity|]]].
  vm_compute. discriminate.
Qed.

(* ------------------------------------------------------------------ the oracle *)

Lemma class_eqb_eq : forall a b, class_eqb a b = true <-> a = b.
Proof. intros a b; split; [destruct a, b; simpl; intro H; try discriminate H; reflexivity|intros ->; destruct b; reflexivity]. Qed.

Lemma holds_b_iff_l : forall o, holds_b o = true <-> holds o.
Proof.
  intro o. unfold holds_b, holds. rewrite andb_true_iff, Z.eqb_eq.
  destruct (o_kind o).
  - destruct (o_changed o); split; intros [A B]; split; auto; discriminate.
  - rewrite forallb_forall. split; intros [A B]; split; auto.
    + intros c Hc. specialize (B c Hc). apply orb_true_iff in B. rewrite !class_eqb_eq in B. exact B.
    + intros c Hc. specialize (B c Hc). apply orb_true_iff. rewrite !class_eqb_eq. exact B.
Qed.

(* ------------------------------------------------------------------ nomination / bookkeeping functions *)

Lemma nominate_sim_identity : forall o now w row, nominate KSim o now w row = fst row.
Proof. reflexivity. Qed.

Lemma nominate_only_placed : forall k o now w pre, nominate k o now w (pre, false) = pre.
Proof. intros [|] [| | | |]; reflexivity. Qed.

Lemma fold_np_untouched : forall now pod nps b,
  (forall np, In np nps -> existsb (fun p => Z.eqb (fst p) pod && negb (snd p)) (snd np) = false) ->
  fold_left (fun b np => mark_np_one now (fst np) (snd np) pod b) nps b = b.
Proof.
  intros now pod nps. induction nps as [|np r IH]; intros b H; simpl; auto.
  unfold mark_np_one at 2. rewrite (H np (or_introl eq_refl)). apply IH. intros; apply H; right; auto.
Qed.

Lemma fold_nc_untouched : forall pod ncs b,
  (forall nc, In nc ncs -> mem_z pod (snd nc) = false) ->
  fold_left (fun b nc => mark_nc_one nc pod b) ncs b = b.
Proof.
  intros pod ncs. induction ncs as [|nc r IH]; intros b H; simpl; auto.
  unfold mark_nc_one at 2. rewrite (H nc (or_introl eq_refl)). apply IH. intros; apply H; right; auto.
Qed.

(* MarkPodSchedulingDecisions leaves alone every pod it was not told about. *)
Lemma apply_mark_untouched_l : forall now m pod b,
  mem_z pod (m_errs m) = false ->
  (forall np, In np (m_np m) -> existsb (fun p => Z.eqb (fst p) pod && negb (snd p)) (snd np) = false) ->
  (forall nc, In nc (m_nc m) -> mem_z pod (snd nc) = false) ->
  apply_mark now m pod b = b.
Proof.
  intros now m pod b He Hnp Hnc. unfold apply_mark, mark_err. rewrite He.
  rewrite fold_np_untouched; auto. apply fold_nc_untouched; auto.
Qed.

(* A simulation's only bookkeeping effect is on the rejected pods. *)
Lemma sim_marks_only_rejected_l : forall o rej res now pod b,
  mem_z pod rej = false -> apply_marks now (marks_of KSim o rej res) pod b = b.
Proof.
  intros o rej res now pod b H. unfold marks_of.
  assert (forall r, mem_z pod r = false ->
            apply_marks now (match r with [] => [] | _ => [rejected_mark r] end) pod b = b) as G.
  { intros r Hr. destruct r; simpl; auto. unfold apply_marks. simpl.
    apply apply_mark_untouched_l; simpl; auto; intros ? []. }
  simpl. destruct o; simpl; try reflexivity; destruct rej as [|z l]; try reflexivity; apply (G (z :: l) H).
Qed.
