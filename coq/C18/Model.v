(* C18 — Scheduling simulations have no side effects.  Executable model only.

   A pure function has no side effects, so sharing is made explicit: a heap of cells with
   addresses.  The cluster's StateNodes, their usage sub-objects (HostPortUsage, VolumeUsage),
   the maps inside them, the provider's instance-type slices and the pod-bookkeeping maps are
   cells.  [copy_node] is Cluster.DeepCopyNodes for one node, driven by the deep-copy fact table
   (gen/C18_deepcopy.v, translated from zz_generated.deepcopy.go on every run).  The scheduler's
   writes go through addresses exactly where the code's do:

     ExistingNode.Add          n.HostPortUsage().Add  -> u.reserved[key] = ports
                               n.VolumeUsage().Add    -> v.podVolumes[key] = vols ; v.volumes = Union(..) (new map)
     NodeClaim.CanAdd/Truncate filterInstanceTypesByRequirements -> new slice ; OrderByPrice sorts it in place
     Results.Record            cluster.NominateNodeForPod(providerID) -> the CLUSTER's node . nominatedUntil
     MarkPodSchedulingDecisions   the pod bookkeeping maps of the cluster

   SimulateScheduling and Provisioner.Schedule are modelled at method granularity; goroutine
   interleavings inside one Solve call are not (and cannot be) exhibited by this model. *)
From Coq Require Import ZArith String List Bool Arith.
Import ListNotations.
Open Scope string_scope.

(* ------------------------------------------------------------------ observation vocabulary *)

Inductive class :=
| ClApi | ClNodeObjects | ClNodeUsage | ClHostPorts | ClVolumes | ClDeletionMarks | ClNominations
| ClPodBookkeeping | ClClusterOther | ClProviderOrder | ClProviderTypes | ClCandidates.

Definition class_eqb (a b : class) : bool :=
  match a, b with
  | ClApi, ClApi | ClNodeObjects, ClNodeObjects | ClNodeUsage, ClNodeUsage | ClHostPorts, ClHostPorts
  | ClVolumes, ClVolumes | ClDeletionMarks, ClDeletionMarks | ClNominations, ClNominations
  | ClPodBookkeeping, ClPodBookkeeping | ClClusterOther, ClClusterOther | ClProviderOrder, ClProviderOrder
  | ClProviderTypes, ClProviderTypes | ClCandidates, ClCandidates => true
  | _, _ => false
  end.

Inductive opkind := KSim | KProv.

(* how the call ended, as far as the control flow that matters here is concerned *)
Inductive outcome :=
| OOk          (* results returned *)
| ORejected    (* SimulateScheduling: a candidate is already deleting (returns before GetPendingPods) *)
| OErrEarly    (* listing the pending pods failed *)
| OErrLate     (* any later error, including a cancelled context *)
| OEmpty       (* nothing to schedule *)
| ONoPools.    (* Provisioner.Schedule: no usable NodePool (ErrNodePoolsNotFound): every pod is recorded as failed *)

(* ------------------------------------------------------------------ deep-copy facts *)

Inductive fact :=
| FValue               (* not a reference; copied by the struct assignment *)
| FValueDeep           (* a struct value with its own DeepCopyInto call *)
| FShallow             (* a pointer/map/slice that is only copied by the struct assignment: ALIASED *)
| FOmitted             (* not copied at all *)
| FDeepLeaf            (* map/slice re-made and filled *)
| FDeepObj (ty : string). (* pointer: new(T) and T.DeepCopyInto *)

Definition ttable := list (string * list (string * fact)).

Fixpoint lookup {A} (l : list (string * A)) (k : string) : option A :=
  match l with
  | [] => None
  | (k', v) :: r => if String.eqb k' k then Some v else lookup r k
  end.

Definition facts_of (t : ttable) (ty : string) : list (string * fact) :=
  match lookup t ty with Some l => l | None => [] end.

Definition fact_in (l : list (string * fact)) (f : string) : fact :=
  match lookup l f with Some x => x | None => FOmitted end.

Definition fact_of (t : ttable) (ty f : string) : fact := fact_in (facts_of t ty) f.

Definition deep (f : fact) : bool :=
  match f with FDeepLeaf | FDeepObj _ => true | _ => false end.

Definition is_shallow (f : fact) : bool :=
  match f with FShallow => true | _ => false end.

(* The fields of its StateNode copy that ExistingNode.Add writes through. *)
Definition en_add_writes : list string := ["hostPortUsage"; "volumeUsage"].

(* (type, field) pairs that are dereferenced on the way to a write. *)
Definition wpaths : list (string * string) :=
  map (fun f => ("StateNode", f)) en_add_writes ++ [("HostPortUsage", "reserved"); ("VolumeUsage", "podVolumes")].

Definition table_ok (t : ttable) : bool :=
  forallb (fun p => deep (fact_of t (fst p) (snd p))) wpaths.

(* ------------------------------------------------------------------ heap *)

Definition addr := nat.

Inductive val := VInt (z : Z) | VRef (a : option addr).

Inductive cell :=
| CFree
| CLeaf (p : list Z)                            (* a map / slice: its content *)
| CObj (ty : string) (fs : list (string * val)). (* a struct *)

Record heap := mkHeap { cells : addr -> cell; next : addr }.

Definition alloc (h : heap) (c : cell) : heap * addr :=
  (mkHeap (fun a => if Nat.eqb a (next h) then c else cells h a) (S (next h)), next h).

Definition write (h : heap) (a : addr) (c : cell) : heap :=
  mkHeap (fun x => if Nat.eqb x a then c else cells h x) (next h).

Fixpoint update (fs : list (string * val)) (n : string) (v : val) : list (string * val) :=
  match fs with
  | [] => []
  | (k, x) :: r => if String.eqb k n then (k, v) :: r else (k, x) :: update r n v
  end.

(* typed field read: nil unless the cell is a struct of type [ty] holding a reference in [n] *)
Definition get_field (h : heap) (a : addr) (ty n : string) : option addr :=
  match cells h a with
  | CObj ty' fs => if String.eqb ty' ty then match lookup fs n with Some (VRef r) => r | _ => None end else None
  | _ => None
  end.

Definition leaf_of (h : heap) (a : addr) : list Z :=
  match cells h a with CLeaf p => p | _ => [] end.

Definition leaf_append (h : heap) (a : addr) (k : Z) : heap :=
  match cells h a with CLeaf p => write h a (CLeaf (p ++ [k])) | _ => h end.

Definition set_field (h : heap) (a : addr) (n : string) (v : val) : heap :=
  match cells h a with CObj ty fs => write h a (CObj ty (update fs n v)) | _ => h end.

(* ------------------------------------------------------------------ DeepCopy *)

Definition copy_leaf (h : heap) (a : addr) : heap * val :=
  match cells h a with
  | CLeaf p => let '(h', a') := alloc h (CLeaf p) in (h', VRef (Some a'))
  | _ => (h, VRef None)
  end.

Definition omitted (v : val) : val := match v with VInt _ => VInt 0 | VRef _ => VRef None end.

(* one field of a sub-object (second level): references are maps/slices *)
Definition copy_field_flat (f : fact) (h : heap) (v : val) : heap * val :=
  match f, v with
  | FDeepLeaf, VRef (Some a) => copy_leaf h a
  | FDeepObj _, VRef (Some a) => copy_leaf h a
  | FOmitted, _ => (h, omitted v)
  | _, _ => (h, v)
  end.

Fixpoint copy_fields_flat (t : list (string * fact)) (h : heap) (fs : list (string * val)) : heap * list (string * val) :=
  match fs with
  | [] => (h, [])
  | (n, v) :: r =>
      let '(h1, v') := copy_field_flat (fact_in t n) h v in
      let '(h2, r') := copy_fields_flat t h1 r in
      (h2, (n, v') :: r')
  end.

Definition copy_obj_flat (tbl : ttable) (h : heap) (a : addr) : heap * val :=
  match cells h a with
  | CObj ty fs =>
      let '(h1, fs') := copy_fields_flat (facts_of tbl ty) h fs in
      let '(h2, a') := alloc h1 (CObj ty fs') in (h2, VRef (Some a'))
  | CLeaf p => let '(h', a') := alloc h (CLeaf p) in (h', VRef (Some a'))
  | CFree => (h, VRef None)
  end.

(* one field of a StateNode (first level) *)
Definition copy_field_top (tbl : ttable) (f : fact) (h : heap) (v : val) : heap * val :=
  match f, v with
  | FDeepLeaf, VRef (Some a) => copy_leaf h a
  | FDeepObj _, VRef (Some a) => copy_obj_flat tbl h a
  | FOmitted, _ => (h, omitted v)
  | _, _ => (h, v)
  end.

Fixpoint copy_fields_top (tbl : ttable) (t : list (string * fact)) (h : heap) (fs : list (string * val)) : heap * list (string * val) :=
  match fs with
  | [] => (h, [])
  | (n, v) :: r =>
      let '(h1, v') := copy_field_top tbl (fact_in t n) h v in
      let '(h2, r') := copy_fields_top tbl t h1 r in
      (h2, (n, v') :: r')
  end.

(* StateNode.DeepCopy; None when the address does not hold a struct *)
Definition copy_node (tbl : ttable) (h : heap) (a : addr) : heap * option addr :=
  match cells h a with
  | CObj ty fs =>
      let '(h1, fs') := copy_fields_top tbl (facts_of tbl ty) h fs in
      let '(h2, a') := alloc h1 (CObj ty fs') in (h2, Some a')
  | _ => (h, None)
  end.

(* Cluster.DeepCopyNodes *)
Fixpoint copy_nodes (tbl : ttable) (h : heap) (roots : list addr) : heap * list (option addr) :=
  match roots with
  | [] => (h, [])
  | r :: rs =>
      let '(h1, c) := copy_node tbl h r in
      let '(h2, cs) := copy_nodes tbl h1 rs in
      (h2, c :: cs)
  end.

(* ------------------------------------------------------------------ the scheduler's writes *)

Inductive sop :=
| SAddPod (i : nat) (key : Z)           (* ExistingNode.Add on the i-th node handed to the scheduler *)
| SNewClaim (s : nat) (mask : list bool) (* filter provider slice s into a new slice, then OrderByPrice sorts that slice *)
| SPrecompute (t : nat)                 (* fits() -> AllocatableOfferingsList(): sync.Once precompute of provider instance type t *)
| SInjectTSC (i : nat) (k : Z)          (* DefaultTopologySpreadInjector.Inject: p.Spec.TopologySpreadConstraints = defaults, IN PLACE on the i-th shared pod
                                           (a candidate's reschedulable pod, a cached virtual pod).  The former second write of this kind —
                                           NewPodRequirements sorting the preferred node-affinity terms in place — was fixed in /repo (bad8fc38d)
                                           and is no longer a step of the model: if it returns it is a violation. *)
| PNominate (i : nat) (until : Z)       (* Results.Record -> cluster.NominateNodeForPod: the cluster's OWN i-th node *)
| PMark (pod : Z).                      (* Cluster.MarkPodSchedulingDecisions touches the bookkeeping of this pod *)

Definition is_sim_op (o : sop) : bool :=
  match o with SAddPod _ _ | SNewClaim _ _ | SPrecompute _ | SInjectTSC _ _ => true | _ => false end.

(* the scheduler step that writes objects shared between simulations (finding) *)
Definition touches_shared_pod (o : sop) : bool :=
  match o with SInjectTSC _ _ => true | _ => false end.

Record env := mkEnv {
  e_tbl : ttable;
  e_roots : list addr;    (* the cluster's StateNodes *)
  e_slices : list addr;   (* the provider's instance-type slices *)
  e_types : list addr;    (* the provider's InstanceType structs (Capacity, Overhead, override maps hang off them) *)
  e_pods : list addr;     (* pod objects shared between simulations: the candidates' reschedulable pods, cached virtual pods *)
  e_book : addr           (* the cluster's pod bookkeeping *)
}.

Definition en_add (h : heap) (c : addr) (key : Z) : heap :=
  let h1 :=
    match get_field h c "StateNode" "hostPortUsage" with
    | Some hp => match get_field h hp "HostPortUsage" "reserved" with
                 | Some m => leaf_append h m key
                 | None => h
                 end
    | None => h
    end in
  match get_field h1 c "StateNode" "volumeUsage" with
  | Some vu =>
      let h2 := match get_field h1 vu "VolumeUsage" "podVolumes" with
                | Some m => leaf_append h1 m key
                | None => h1
                end in
      let old := match get_field h2 vu "VolumeUsage" "volumes" with Some m => leaf_of h2 m | None => [] end in
      let '(h3, u) := alloc h2 (CLeaf (old ++ [key])) in
      set_field h3 vu "volumes" (VRef (Some u))
  | None => h1
  end.

Fixpoint mask_filter (p : list Z) (m : list bool) : list Z :=
  match p, m with
  | x :: p', b :: m' => if b then x :: mask_filter p' m' else mask_filter p' m'
  | _, _ => []
  end.

Fixpoint insert_sorted (x : Z) (l : list Z) : list Z :=
  match l with
  | [] => [x]
  | y :: r => if Z.leb x y then x :: l else y :: insert_sorted x r
  end.

Definition sort_z (l : list Z) : list Z := fold_right insert_sorted [] l.

Definition new_claim (h : heap) (slice : addr) (mask : list bool) : heap :=
  let '(h1, u) := alloc h (CLeaf (mask_filter (leaf_of h slice) mask)) in   (* remaining := InstanceTypes{}; append *)
  write h1 u (CLeaf (sort_z (leaf_of h1 u))).                                (* sort.Slice on that slice *)

(* InstanceType.precompute behind sync.Once: the allocatable groups are computed from the provider's Capacity,
   Overhead and per-offering override maps into NEW maps (lo.Assign, resources.Subtract allocate); the only
   provider-owned word written is the cache field itself, and only while it is unset. *)
Definition precompute (h : heap) (a : addr) : heap :=
  match cells h a with
  | CObj ty fs =>
      if String.eqb ty "InstanceType" then
        match lookup fs "allocatableOfferings" with
        | Some (VRef (Some _)) => h
        | _ =>
            let cap := match get_field h a "InstanceType" "Capacity" with Some m => leaf_of h m | None => [] end in
            let '(h1, u) := alloc h (CLeaf cap) in
            set_field h1 a "allocatableOfferings" (VRef (Some u))
        end
      else h
  | _ => h
  end.

Definition leaf_map (h : heap) (a : addr) (f : list Z -> list Z) : heap :=
  match cells h a with CLeaf p => write h a (CLeaf (f p)) | _ => h end.

Definition step (e : env) (copies : list (option addr)) (h : heap) (o : sop) : heap :=
  match o with
  | SAddPod i key => match nth i copies None with Some c => en_add h c key | None => h end
  | SNewClaim s mask => match nth_error (e_slices e) s with Some a => new_claim h a mask | None => h end
  | SPrecompute t => match nth_error (e_types e) t with Some a => precompute h a | None => h end
  | SInjectTSC i k => match nth_error (e_pods e) i with Some a => leaf_map h a (fun p => (p ++ [k])%list) | None => h end
  | PNominate i t => match nth_error (e_roots e) i with Some r => set_field h r "nominatedUntil" (VInt t) | None => h end
  | PMark pod => leaf_append h (e_book e) pod
  end.

(* one scheduling run: DeepCopyNodes, then the steps in order *)
Definition run (e : env) (h : heap) (ops : list sop) : heap :=
  let '(h1, copies) := copy_nodes (e_tbl e) h (e_roots e) in
  fold_left (step e copies) ops h1.

Definition run_all (e : env) (h : heap) (runs : list (list sop)) : heap := fold_left (run e) runs h.

(* ------------------------------------------------------------------ SimulateScheduling / Provisioner.Schedule *)

(* Which pods does GetPendingPods hand to MarkPodSchedulingDecisions?  Those that fail Provisioner.Validate,
   provided the call gets that far. *)
Definition pending_marks (o : outcome) (rejected : list Z) : list Z :=
  match o with ORejected | OErrEarly => [] | _ => rejected end.

Definition sched_ops (l : list sop) : list sop := filter is_sim_op l.

(* disruption.SimulateScheduling: DeepCopyNodes; candidate check; GetPendingPods (marks the rejected pods);
   the scheduler's decisions. *)
Definition simulate (e : env) (h : heap) (o : outcome) (rejected : list Z) (decisions : list sop) : heap :=
  run e h (map PMark (pending_marks o rejected) ++ sched_ops decisions).

Record sim_call := mkSim { s_outcome : outcome; s_rejected : list Z; s_decisions : list sop }.

Definition simulate_all (e : env) (h : heap) (calls : list sim_call) : heap :=
  fold_left (fun h c => simulate e h (s_outcome c) (s_rejected c) (s_decisions c)) calls h.

(* Provisioner.Schedule: the same, then MarkPodSchedulingDecisions for the results and Results.Record. *)
Definition provision (e : env) (h : heap) (o : outcome) (rejected : list Z) (decisions : list sop)
           (marked : list Z) (nominated : list (nat * Z)) : heap :=
  run e h (map PMark (pending_marks o rejected) ++ sched_ops decisions ++
           match o with
           | OOk => map PMark marked ++ map (fun p => PNominate (fst p) (snd p)) nominated
           | ONoPools => map PMark marked
           | _ => []
           end).

(* ------------------------------------------------------------------ nomination and bookkeeping, as functions *)

(* Results.Record: every existing node that received at least one real pod is nominated until now + window. *)
Definition nominate (k : opkind) (o : outcome) (now window : Z) (row : Z * bool) : Z :=
  match k, o with
  | KProv, OOk => if snd row then now + window else fst row
  | _, _ => fst row
  end.

Record brec := mkB { b_ack : Z; b_att : Z; b_sched : Z; b_healthy : Z; b_nc : string }. (* 0 / "" = absent *)

Definition load_or_store (old now : Z) : Z := if Z.eqb old 0 then now else old.

Record mark := mkMark {
  m_errs : list Z;                              (* pods with a scheduling error *)
  m_np : list (bool * list (Z * bool));         (* per NodePool: (named and NodeRegistrationHealthy, [(pod, already bound)]) *)
  m_nc : list (string * list Z)                 (* per existing NodeClaim: its pods *)
}.

Definition mem_z (x : Z) (l : list Z) : bool := existsb (Z.eqb x) l.

Definition mark_err (now : Z) (errs : list Z) (pod : Z) (b : brec) : brec :=
  if mem_z pod errs then mkB (b_ack b) (load_or_store (b_att b) now) 0 0 "" else b.

Definition mark_np_one (now : Z) (healthy : bool) (pods : list (Z * bool)) (pod : Z) (b : brec) : brec :=
  if existsb (fun p => Z.eqb (fst p) pod && negb (snd p)) pods
  then mkB (b_ack b) (load_or_store (b_att b) now) (load_or_store (b_sched b) now)
           (if healthy then load_or_store (b_healthy b) now else 0) (b_nc b)
  else b.

Definition mark_nc_one (nc : string * list Z) (pod : Z) (b : brec) : brec :=
  if mem_z pod (snd nc) then mkB (b_ack b) (b_att b) (b_sched b) (b_healthy b) (fst nc) else b.

(* Cluster.MarkPodSchedulingDecisions for one pod's record *)
Definition apply_mark (now : Z) (m : mark) (pod : Z) (b : brec) : brec :=
  let b1 := mark_err now (m_errs m) pod b in
  let b2 := fold_left (fun b np => mark_np_one now (fst np) (snd np) pod b) (m_np m) b1 in
  fold_left (fun b nc => mark_nc_one nc pod b) (m_nc m) b2.

Definition rejected_mark (rej : list Z) : mark := mkMark rej [] [].

(* the MarkPodSchedulingDecisions calls one operation makes *)
Definition marks_of (k : opkind) (o : outcome) (rejected : list Z) (result : option mark) : list mark :=
  let pre := match pending_marks o rejected with [] => [] | r => [rejected_mark r] end in
  match k, o, result with
  | KProv, OOk, Some m => pre ++ [m]
  | KProv, ONoPools, Some m => pre ++ [m]
  | _, _, _ => pre
  end.

Definition apply_marks (now : Z) (ms : list mark) (pod : Z) (b : brec) : brec :=
  fold_left (fun b m => apply_mark now m pod b) ms b.

(* ------------------------------------------------------------------ the property on one observed operation *)

(* What the harness observed of one SimulateScheduling / Schedule call on the real code. *)
Record obs := mkObs {
  o_kind : opkind;
  o_outcome : outcome;
  o_writes : Z;                       (* API write calls (create/update/patch/delete, incl. sub-resources) during the call *)
  o_changed : list class;             (* classes of the world digest that differ before/after *)
  o_copy_written : list string;       (* StateNode fields that differ between the scheduler's copies and the cluster's nodes *)
  o_placed : bool;                    (* some pod was placed on an existing node *)
  o_fresh : bool;                     (* every new NodeClaim carries a slice that is not one of the provider's *)
  o_cache_fresh : bool;               (* every computed allocatable group owns its map (shares nothing with provider maps) *)
  o_now : Z; o_window : Z;
  o_nom : list (Z * bool * Z);        (* per cluster node: nominatedUntil before, received a real pod, nominatedUntil after *)
  o_rejected : list Z;                (* pending pods failing Provisioner.Validate *)
  o_result : option mark;             (* MarkPodSchedulingDecisions arguments derived from the returned results *)
  o_book : list (Z * brec * brec)     (* per pod: bookkeeping before / after *)
}.

(* The property text: a simulation changes nothing observable and writes no API object; a provisioning pass
   (before it creates NodeClaims) changes only nominations and pod bookkeeping. *)
Definition holds (o : obs) : Prop :=
  o_writes o = 0%Z /\
  match o_kind o with
  | KSim => o_changed o = []
  | KProv => forall c, In c (o_changed o) -> c = ClNominations \/ c = ClPodBookkeeping
  end.

Definition holds_b (o : obs) : bool :=
  Z.eqb (o_writes o) 0 &&
  match o_kind o with
  | KSim => match o_changed o with [] => true | _ => false end
  | KProv => forallb (fun c => class_eqb c ClNominations || class_eqb c ClPodBookkeeping) (o_changed o)
  end.
