(* C06 — executable model of the consolidation decision logic:
     pkg/cloudprovider/types.go           Offerings.{Available,Compatible,WorstLaunchPrice}, InstanceTypes.{OrderByPrice (key only),
                                          Compatible,SatisfiesMinValues}, InstanceType.OfferingPrice
     pkg/controllers/provisioning/scheduling/nodeclaim.go   RemoveInstanceTypeOptionsByPriceAndMinValues
     pkg/controllers/disruption/helpers.go        the post-processing of SimulateScheduling (uninitialized-node guard),
                                                  Results.AllNonPendingPodsScheduled, instanceTypesAreSubset
     pkg/controllers/disruption/consolidation.go  computeConsolidation, computeSpotToSpotConsolidation
     pkg/controllers/disruption/multinodeconsolidation.go  firstNConsolidationOption, filterOutSameInstanceType
     pkg/controllers/disruption/singlenodeconsolidation.go the candidate loop
     pkg/controllers/disruption/emptiness.go, types.go     Candidate.IsEmpty, computeRescheduleDisruptionCost, resolveNodePrice
     pkg/controllers/disruption/validation.go     validateCommand
     pkg/utils/disruption/disruption.go           EvictionCost
   Method granularity: Scheduler.Solve is an input (its result is what the model is given); budgets (C05), candidate
   eligibility (C07) and the balanced evaluator are outside this model (the default no-op evaluator approves everything).
   Prices are exact dyadic rationals in units of 2^-10 (Z); math.MaxFloat64 is [None]. Eviction costs are in units of 2^-27.
   The requirement algebra is Base.Req (C12). *)
From KV Require Export Base.Req.
Open Scope string_scope.
Open Scope list_scope.
Open Scope Z_scope.

(* ---------------------------------------------------------------- labels *)
Definition ct_key := "karpenter.sh/capacity-type".
Definition zone_key := "topology.kubernetes.io/zone".
Definition rid_key := "karpenter.test.sh/reservation-id".     (* cloudprovider.ReservationIDLabel of the fake provider *)
Definition ct_reserved := "reserved".
Definition ct_spot := "spot".
Definition ct_od := "on-demand".
(* scheduling.AllowUndefinedWellKnownLabels restricted to the keys an offering can carry (all three are well known) *)
Definition allow : list string := [ct_key; zone_key; rid_key].

(* ---------------------------------------------------------------- prices *)
Definition price := option Z.                       (* None = math.MaxFloat64 *)
Definition plt (a b : price) : bool :=              (* a < b on float64 *)
  match a, b with
  | Some x, Some y => x <? y
  | Some _, None => true
  | None, _ => false
  end.

(* ---------------------------------------------------------------- catalog *)
(* cloudprovider.Offering: Requirements = {capacity-type In [ct], zone In [zone]} (+ reservation-id In [rid]) *)
Record offering := mkOff { o_ct : string; o_zone : string; o_rid : option string; o_price : Z; o_avail : bool }.

(* cloudprovider.InstanceType: [it_vals] is Requirements.Get(key).Values() for the keys that carry minValues *)
Record itype := mkIT { it_name : string; it_offs : list offering; it_vals : list (string * list string) }.

Definition req_in (vs : list string) : req := new_req In None vs.

Definition off_reqs (o : offering) : reqs :=
  [(ct_key, req_in [o_ct o]); (zone_key, req_in [o_zone o])] ++
  match o_rid o with Some r => [(rid_key, req_in [r])] | None => [] end.

(* reqs.IsCompatible(of.Requirements, scheduling.AllowUndefinedWellKnownLabels) *)
Definition off_compat (r : reqs) (o : offering) : bool := compatible allow r (off_reqs o).

Definition available (ofs : list offering) : list offering := filter o_avail ofs.         (* Offerings.Available *)
Definition compat_offs (r : reqs) (ofs : list offering) : list offering := filter (off_compat r) ofs.  (* Offerings.Compatible *)

Definition ct_reqs (c : string) : reqs := [(ct_key, req_in [c])].   (* ReservedRequirement / SpotRequirement / OnDemandRequirement *)

Fixpoint max_price (ofs : list offering) : Z :=      (* MostExpensive().Price of a non-empty list *)
  match ofs with
  | [] => 0
  | [o] => o_price o
  | o :: t => Z.max (o_price o) (max_price t)
  end.
Fixpoint min_price (ofs : list offering) : Z :=      (* Cheapest().Price of a non-empty list *)
  match ofs with
  | [] => 0
  | [o] => o_price o
  | o :: t => Z.min (o_price o) (min_price t)
  end.

(* Offerings.WorstLaunchPrice: precedence reserved, spot, on-demand *)
Definition ct_order : list string := [ct_reserved; ct_spot; ct_od].
Fixpoint wlp_go (cs : list string) (ofs : list offering) : price :=
  match cs with
  | [] => None
  | c :: t => match compat_offs (ct_reqs c) ofs with
              | [] => wlp_go t ofs
              | l => Some (max_price l)
              end
  end.
Definition worst_launch_price (r : reqs) (ofs : list offering) : price := wlp_go ct_order (compat_offs r ofs).

(* the launch price the filter looks at: it.Offerings.Available().WorstLaunchPrice(reqs) *)
Definition launch_price (r : reqs) (it : itype) : price := worst_launch_price r (available (it_offs it)).

(* InstanceTypes.OrderByPrice sorts (unstably) by this key: the cheapest available compatible offering *)
Definition order_key (r : reqs) (it : itype) : price :=
  match compat_offs r (available (it_offs it)) with
  | [] => None
  | l => Some (min_price l)
  end.
Fixpoint sorted_by_key (r : reqs) (l : list itype) : bool :=
  match l with
  | a :: ((b :: _) as t) => negb (plt (order_key r b) (order_key r a)) && sorted_by_key r t
  | _ => true
  end.

(* InstanceTypes.Compatible *)
Definition its_compatible (r : reqs) (its : list itype) : list itype :=
  filter (fun it => existsb (off_compat r) (available (it_offs it))) its.

(* ---------------------------------------------------------------- minValues *)
Definition min_keys (r : reqs) : list (string * Z) :=
  flat_map (fun kr : string * req => match minv (snd kr) with Some m => [(fst kr, m)] | None => [] end) r.
Definition has_min_values (r : reqs) : bool := match min_keys r with [] => false | _ => true end.

Fixpoint assoc {A} (k : string) (l : list (string * A)) : option A :=
  match l with
  | [] => None
  | (k', v) :: t => if String.eqb k k' then Some v else assoc k t
  end.
Definition vals_of (it : itype) (k : string) : list string := match assoc k (it_vals it) with Some v => v | None => [] end.

Definition mv_ok (mk : list (string * Z)) (acc : list (string * list string)) : bool :=
  forallb (fun km : string * Z =>
    match assoc (fst km) acc with Some vs => snd km <=? Z.of_nat (length vs) | None => false end) mk.
Definition mv_add (acc : list (string * list string)) (it : itype) : list (string * list string) :=
  map (fun kv : string * list string => (fst kv, sunion (snd kv) (dedup (vals_of it (fst kv))))) acc.

(* the loop of SatisfiesMinValues; [i] instance types consumed so far *)
Fixpoint smv_go (mk : list (string * Z)) (acc : list (string * list string)) (its : list itype) (i : nat) : nat * bool :=
  match its with
  | [] => (i, false)                                 (* len(its), error: some key is still short *)
  | it :: t => let acc' := mv_add acc it in
               if mv_ok mk acc' then (S i, true) else smv_go mk acc' t (S i)
  end.
(* InstanceTypes.SatisfiesMinValues: (minNeededInstanceTypes, err == nil). An empty list is never an error. *)
Definition sat_min_values (its : list itype) (r : reqs) : nat * bool :=
  if negb (has_min_values r) then (0%nat, true)
  else match its with
       | [] => (0%nat, true)
       | _ => smv_go (min_keys r) (map (fun km : string * Z => (fst km, [])) (min_keys r)) its 0
       end.

(* NodeClaim.RemoveInstanceTypeOptionsByPriceAndMinValues: the filtered list, and err == nil *)
Definition remove_by_price (r : reqs) (maxp : price) (its : list itype) : list itype :=
  filter (fun it => plt (launch_price r it) maxp) its.
Definition remove_by_price_mv (r : reqs) (maxp : price) (its : list itype) : list itype * bool :=
  let l := remove_by_price r maxp its in (l, snd (sat_min_values l r)).

(* ---------------------------------------------------------------- candidates *)
(* EvictionCost in units of 2^-27: clamp(1 + deletionCost/2^27 + priority/2^25, -10, 10) *)
Definition two27 : Z := 134217728.
Definition eviction_cost (deletion_cost priority : Z) : Z :=
  Z.max (-10 * two27) (Z.min (10 * two27) (two27 + deletion_cost + 4 * priority)).

Record cand := mkCand {
  c_name : string;
  c_itname : string;                 (* instanceType.Name *)
  c_ct : string; c_zone : string;    (* node labels (capacityType, zone) *)
  c_rid : option string;             (* node label reservation-id, if any *)
  c_offs : list offering;            (* instanceType.Offerings *)
  c_pods : list Z                    (* EvictionCost of every reschedulable pod *)
}.

(* resolveNodePrice / InstanceType.OfferingPrice: first offering with this zone and capacity type, else 0 *)
Definition cand_price (c : cand) : Z :=
  match List.find (fun o => String.eqb (o_zone o) (c_zone c) && String.eqb (o_ct o) (c_ct c)) (c_offs c) with
  | Some o => o_price o
  | None => 0
  end.
Definition sum_prices (cs : list cand) : Z := fold_right (fun c a => cand_price c + a) 0 cs.

(* computeRescheduleDisruptionCost (2^-27 units) and Candidate.IsEmpty *)
Definition resched_cost (c : cand) : Z := fold_right (fun p a => Z.max 0 p + a) two27 (c_pods c).
Definition is_empty (c : cand) : bool := resched_cost c <=? two27.

(* ---------------------------------------------------------------- simulation results *)
Inductive origin := Pending | OnDeleting | OnCandidate.       (* where a pod handed to the scheduler comes from *)
Inductive place :=
| PErr                                      (* Results.PodErrors (from Solve / TruncateInstanceTypes) *)
| PExisting (node : string) (init : bool)   (* Results.ExistingNodes[node].Pods; init = ExistingNode.Initialized() *)
| PNew (idx : nat).                         (* Results.NewNodeClaims[idx].Pods *)
Record pplace := mkPP { pp_id : Z; pp_origin : origin; pp_where : place }.

Record nclaim := mkNC { nc_reqs : reqs; nc_opts : list itype }.      (* NodeClaim.Requirements, .InstanceTypeOptions *)
Record sim := mkSim { s_pods : list pplace; s_new : list nclaim }.

Definition provisionable (p : pplace) : bool := match pp_origin p with Pending => true | _ => false end.
(* SimulateScheduling: pods on an uninitialized existing node get a pod error unless they come from a deleting node *)
Definition errored (p : pplace) : bool :=
  match pp_where p with
  | PErr => true
  | PExisting _ false => match pp_origin p with OnDeleting => false | _ => true end
  | _ => false
  end.
(* Results.AllNonPendingPodsScheduled *)
Definition all_scheduled (s : sim) : bool := forallb (fun p => negb (errored p) || provisionable p) (s_pods s).

(* ---------------------------------------------------------------- computeConsolidation *)
Inductive decision :=
| NoOp
| Delete
| Replace (r : reqs) (opts : list itype).

Definition min_spot_to_spot : nat := 15.     (* MinInstanceTypesForSpotToSpotConsolidation *)

Definition pin_spot (r : reqs) : reqs := add1 r (ct_key, req_in [ct_spot]).

(* computeSpotToSpotConsolidation; [cp] = candidatePrice *)
Definition spot_to_spot (flag : bool) (ncands : nat) (r : reqs) (opts : list itype) (cp : price) : decision :=
  if negb flag then NoOp else
  let r' := pin_spot r in
  let opts1 := its_compatible r' opts in
  let '(opts2, ok) := remove_by_price_mv r' cp opts1 in
  if negb ok then NoOp else
  match opts2 with
  | [] => NoOp
  | _ =>
    if (1 <? ncands)%nat then Replace r' opts2 else
    if (length opts2 <? min_spot_to_spot)%nat then NoOp else
    if has_min_values r'
    then Replace r' (firstn (Nat.max min_spot_to_spot (fst (sat_min_values opts2 r'))) opts2)
    else Replace r' (firstn min_spot_to_spot opts2)
  end.

(* computeConsolidation after SimulateScheduling. [nc_opts] of the single new NodeClaim is given in the order
   OrderByPrice left it (any order sorted by [order_key]; see Check.v). *)
Definition compute (flag : bool) (cands : list cand) (s : sim) : decision :=
  if negb (all_scheduled s) then NoOp else
  match s_new s with
  | [] => Delete
  | [nc] =>
    let cp := Some (sum_prices cands) in
    let r := nc_reqs nc in
    let all_spot := forallb (fun c => String.eqb (c_ct c) ct_spot) cands in
    if all_spot && has (get r ct_key) ct_spot then spot_to_spot flag (length cands) r (nc_opts nc) cp else
    let '(opts, ok) := remove_by_price_mv r cp (nc_opts nc) in
    if negb ok then NoOp else
    match opts with
    | [] => NoOp
    | _ =>
      let ctr := get r ct_key in
      Replace (if has ctr ct_spot && has ctr ct_od then pin_spot r else r) opts
    end
  | _ => NoOp
  end.

(* ---------------------------------------------------------------- multi-node *)
Definition cand_labels (c : cand) : reqs :=           (* NewLabelRequirements(c.Labels()) on the keys an offering carries *)
  [(ct_key, req_in [c_ct c]); (zone_key, req_in [c_zone c])] ++
  match c_rid c with Some r => [(rid_key, req_in [r])] | None => [] end.

(* pricesByInstanceType of filterOutSameInstanceType *)
Fixpoint prices_by_type (cs : list cand) (acc : list (string * Z)) : list (string * Z) :=
  match cs with
  | [] => acc
  | c :: t =>
    match compat_offs (cand_labels c) (c_offs c) with
    | [] => prices_by_type t acc
    | l => let p := min_price l in
           if plt (Some p) (assoc (c_itname c) acc) then prices_by_type t ((c_itname c, p) :: filter (fun kv => negb (String.eqb (fst kv) (c_itname c))) acc)
           else prices_by_type t acc
    end
  end.
Definition same_type_max_price (opts : list itype) (cs : list cand) : price :=
  let pb := prices_by_type cs [] in
  fold_left (fun mp it =>
    if existsb (fun c => String.eqb (c_itname c) (it_name it)) cs
    then let p := Some (match assoc (it_name it) pb with Some z => z | None => 0 end) in
         if plt p mp then p else mp
    else mp) opts None.
(* filterOutSameInstanceType: the replacement's remaining options, and err == nil *)
Definition filter_out_same_type (r : reqs) (opts : list itype) (cs : list cand) : list itype * bool :=
  remove_by_price_mv r (same_type_max_price opts cs) opts.

(* one probe of the binary search: computeConsolidation + filterOutSameInstanceType (the no-op evaluator approves) *)
(* Evaluator.ApproveCommand / CanPassThreshold as parameters: the default no-op evaluator approves everything; the
   balanced evaluator (Balanced NodePools) may reject a command, never change it. *)
Definition approver := list cand -> decision -> bool.
Definition approve_all : approver := fun _ _ => true.

Definition multi_probe_ev (ap : approver) (flag : bool) (cs : list cand) (s : sim) : option decision :=
  match compute flag cs s with
  | NoOp => None
  | Delete => if ap cs Delete then Some Delete else None
  | Replace r opts =>
    let '(opts', ok) := filter_out_same_type r opts cs in
    if ok then match opts' with [] => None | _ => if ap cs (Replace r opts') then Some (Replace r opts') else None end else None
  end.
Definition multi_probe := multi_probe_ev approve_all.

(* firstNConsolidationOption: [sims k] is the simulation for candidates[0..k). Returns the number of candidates and
   the decision of the last saved command. *)
Fixpoint first_n_go (ap : approver) (fuel : nat) (flag : bool) (cs : list cand) (sims : nat -> sim) (lo hi : Z)
                    (last : option (nat * decision)) : option (nat * decision) :=
  match fuel with
  | O => last
  | S f =>
    if hi <? lo then last else
    let mid := (lo + hi) / 2 in
    let k := Z.to_nat (mid + 1) in
    match multi_probe_ev ap flag (firstn k cs) (sims k) with
    | Some d => first_n_go ap f flag cs sims (mid + 1) hi (Some (k, d))
    | None => first_n_go ap f flag cs sims lo (mid - 1) last
    end
  end.
Definition first_n_ev (ap : approver) (flag : bool) (cs : list cand) (sims : nat -> sim) : option (nat * decision) :=
  let n := Z.of_nat (length cs) in
  if n <? 2 then None else
  let maxp := Z.min n 100 in
  let hi := if n <=? maxp then n - 1 else maxp in
  first_n_go ap (S (length cs)) flag cs sims 1 hi None.
Definition first_n := first_n_ev approve_all.

(* ---------------------------------------------------------------- single-node *)
(* the candidate loop: the first candidate (in the order tried) whose decision is not NoOp *)
Fixpoint single_ev (ap : approver) (can_pass : cand -> bool) (flag : bool) (cs : list (cand * sim)) : option (cand * decision) :=
  match cs with
  | [] => None
  | (c, s) :: t =>
      if negb (can_pass c) then single_ev ap can_pass flag t else
      match compute flag [c] s with
      | NoOp => single_ev ap can_pass flag t
      | d => if ap [c] d then Some (c, d) else single_ev ap can_pass flag t
      end
  end.
Definition single := single_ev approve_all (fun _ => true).

(* ---------------------------------------------------------------- emptiness *)
Definition emptiness (cs : list cand) : list cand := filter is_empty cs.

(* ---------------------------------------------------------------- validation *)
(* instanceTypesAreSubset on names *)
Definition names_subset (l r : list string) : bool :=
  Nat.eqb (length (sinter (dedup r) (dedup l))) (length (dedup l)).
(* validateCommand: [nrepl] = len(cmd.Replacements), [repl] = names of cmd.Replacements[0].InstanceTypeOptions, [s] the
   re-simulation. true = nil error. *)
Definition validate_command (nrepl : nat) (repl : list string) (s : sim) : bool :=
  if negb (all_scheduled s) then false else
  match s_new s with
  | [] => Nat.eqb nrepl 0
  | [nc] => if Nat.eqb nrepl 0 then false else names_subset repl (map it_name (nc_opts nc))
  | _ => false
  end.

(* ConsolidationValidator.Validate after the validation TTL. validateCandidates rebuilds the candidates from the cluster
   state as it is NOW (GetCandidates with the method's ShouldDisrupt) and keeps those whose names the command proposes
   (mapCandidates: the CURRENT objects filtered by the proposed names); the command is rejected when one is missing
   ([present] = false), nominated, or over budget (C05: an input). validateCommand then re-simulates with these current
   candidates, i.e. [s] is SimulateScheduling over the pods bound to the candidates at validation time. *)
Definition map_candidates (proposed : list string) (current : list cand) : list cand :=
  filter (fun c => mem (c_name c) proposed) current.
Definition all_present (proposed : list string) (current : list cand) : bool :=
  Nat.eqb (length (map_candidates proposed current)) (length proposed).
Definition validate (present nominated budget_ok : bool) (nrepl : nat) (repl : list string) (s : sim) : bool :=
  present && negb nominated && budget_ok && validate_command nrepl repl s.

(* EmptinessValidator.Validate: the current candidates that the command proposes, are (still) empty and not nominated;
   budgets non-binding. None = validation error (nothing left). *)
Definition validate_empty (proposed : list string) (current : list (cand * bool)) : option (list string) :=
  match filter (fun cn : cand * bool => mem (c_name (fst cn)) proposed && is_empty (fst cn) && negb (snd cn)) current with
  | [] => None
  | l => Some (map (fun cn : cand * bool => c_name (fst cn)) l)
  end.

(* ---------------------------------------------------------------- who is a candidate, and budgets *)
(* what consolidation.ShouldDisrupt / Emptiness.ShouldDisrupt read of a disruptable node *)
Record cstate := mkCSt {
  st_static : bool;          (* NodePool.Spec.Replicas != nil *)
  st_it_known : bool;        (* the node's instance type is in the NodePool's catalog *)
  st_has_ct : bool; st_has_zone : bool;   (* capacity-type / zone label present *)
  st_after_set : bool;       (* ConsolidateAfter is not Never *)
  st_when_empty : bool;      (* ConsolidationPolicy == WhenEmpty *)
  st_consolidatable : bool   (* NodeClaim condition Consolidatable is true *)
}.
Definition should_disrupt_consolidation (st : cstate) (empty : bool) : bool :=
  negb (st_static st) && st_it_known st && st_has_ct st && st_has_zone st && st_after_set st &&
  negb empty && negb (st_when_empty st) && st_consolidatable st.
Definition should_disrupt_emptiness (st : cstate) (empty : bool) : bool :=    (* no buffer pods: CapacityBuffer is off *)
  negb (st_static st) && st_after_set st && empty && st_consolidatable st.

(* disruptionBudgetMapping[pool] (absent = 0) *)
Definition budget_of (m : list (string * Z)) (p : string) : Z := match assoc p m with Some z => z | None => 0 end.
(* single-node: candidates of a pool without budget are skipped (no decrement) *)
Definition single_budget (m : list (string * Z)) (cs : list (string * string)) : list string :=
  map fst (filter (fun np : string * string => negb (budget_of m (snd np) =? 0)) cs).
(* multi-node / emptiness: in order, take a candidate while its pool has budget left, decrementing *)
Fixpoint multi_budget (m : list (string * Z)) (cs : list (string * string)) : list string :=
  match cs with
  | [] => []
  | (n, p) :: t =>
      if budget_of m p =? 0 then multi_budget m t
      else n :: multi_budget ((p, budget_of m p - 1) :: filter (fun kv : string * Z => negb (String.eqb (fst kv) p)) m) t
  end.
