(* C06 — proofs about the consolidation model. Everything is for arbitrary catalogs, requirements, candidates and
   simulation results (no size bound). *)
From Coq Require Import Lia.
From KV Require Import Base.ReqProofs Base.K8s C06.Model C06.Spec.
Open Scope string_scope.
Open Scope list_scope.
Open Scope Z_scope.

Local Arguments Nat.max : simpl never.
Local Arguments Nat.min : simpl never.
Local Arguments firstn : simpl never.

(* ------------------------------------------------------------------ requirement facts *)
Definition reqs_ok (r : reqs) : Prop := wf_reqs r /\ nodup_keys r.

Lemma has_req_in x v : has (req_in [x]) v = String.eqb v x.
Proof.
  unfold req_in, new_req, has. simpl. rewrite orb_false_r, andb_true_r. reflexivity.
Qed.

Lemma wf_req_in vs : wf (req_in vs).
Proof. unfold req_in, new_req, wf. simpl. split; exact I. Qed.

Lemma has_exists v : has (new_req Exists None []) v = true.
Proof. reflexivity. Qed.

Lemma admits_req_in_none x : admits (req_in [x]) None = false.
Proof. reflexivity. Qed.

(* a single-value In requirement of an offering is compatible iff the request's requirement for the key has the value *)
Lemma kc_in r k x : mem k allow = true ->
  (key_compatible allow r k (req_in [x]) <-> has (get r k) x = true).
Proof.
  intros Hk. unfold key_compatible, get. destruct (find k r) as [ra|].
  - split.
    + intros ([v|] & H1 & H2).
      * simpl in H1, H2. rewrite has_req_in in H2. apply String.eqb_eq in H2. subst v. exact H1.
      * rewrite admits_req_in_none in H2. discriminate.
    + intros H. exists (Some x). split; [exact H|]. simpl. rewrite has_req_in. apply String.eqb_refl.
  - split; [intros _; apply has_exists|intros _; left; exact Hk].
Qed.

Lemma off_reqs_ok o : wf_reqs (off_reqs o) /\ nodup_keys (off_reqs o).
Proof.
  unfold off_reqs. destruct (o_rid o); simpl.
  - split.
    + intros k r [E|[E|[E|[]]]]; inversion E; apply wf_req_in.
    + unfold nodup_keys. simpl. repeat constructor; simpl; intuition discriminate.
  - split.
    + intros k r [E|[E|[]]]; inversion E; apply wf_req_in.
    + unfold nodup_keys. simpl. repeat constructor; simpl; intuition discriminate.
Qed.

Definition rid_has (r : reqs) (o : offering) : bool :=
  match o_rid o with Some i => has (get r rid_key) i | None => true end.

Lemma off_compat_iff r o : reqs_ok r ->
  off_compat r o = has (get r ct_key) (o_ct o) && has (get r zone_key) (o_zone o) && rid_has r o.
Proof.
  intros [Wr Nr]. destruct (off_reqs_ok o) as [Wo No].
  apply eq_true_iff_eq. unfold off_compat. rewrite (compatible_iff allow r (off_reqs o) Wr Wo Nr No).
  rewrite !andb_true_iff. unfold rid_has, off_reqs.
  assert (Kc : mem ct_key allow = true) by reflexivity.
  assert (Kz : mem zone_key allow = true) by reflexivity.
  assert (Kr : mem rid_key allow = true) by reflexivity.
  destruct (o_rid o) as [i|]; split.
  - intros H. repeat split.
    + apply (kc_in r ct_key (o_ct o) Kc), H. reflexivity.
    + apply (kc_in r zone_key (o_zone o) Kz), H. reflexivity.
    + apply (kc_in r rid_key i Kr), H. reflexivity.
  - intros [[H1 H2] H3] k rb Hf. simpl in Hf.
    destruct (String.eqb_spec k ct_key) as [->|]; [inversion Hf; subst; apply kc_in; assumption|].
    destruct (String.eqb_spec k zone_key) as [->|]; [inversion Hf; subst; apply kc_in; assumption|].
    destruct (String.eqb_spec k rid_key) as [->|]; [inversion Hf; subst; apply kc_in; assumption|discriminate].
  - intros H. repeat split.
    + apply (kc_in r ct_key (o_ct o) Kc), H. reflexivity.
    + apply (kc_in r zone_key (o_zone o) Kz), H. reflexivity.
  - intros [[H1 H2] _] k rb Hf. simpl in Hf.
    destruct (String.eqb_spec k ct_key) as [->|]; [inversion Hf; subst; apply kc_in; assumption|].
    destruct (String.eqb_spec k zone_key) as [->|]; [inversion Hf; subst; apply kc_in; assumption|discriminate].
Qed.

Lemma ct_reqs_ok c : reqs_ok (ct_reqs c).
Proof.
  split.
  - intros k r [E|[]]. inversion E. apply wf_req_in.
  - unfold nodup_keys. simpl. repeat constructor. simpl. tauto.
Qed.

(* Compatible(ReservedRequirement / SpotRequirement / OnDemandRequirement) selects by capacity type *)
Lemma ct_compat c o : off_compat (ct_reqs c) o = String.eqb c (o_ct o).
Proof.
  rewrite (off_compat_iff _ _ (ct_reqs_ok c)).
  assert (G1 : get (ct_reqs c) ct_key = req_in [c]) by reflexivity.
  assert (G2 : get (ct_reqs c) zone_key = new_req Exists None []) by reflexivity.
  assert (G3 : get (ct_reqs c) rid_key = new_req Exists None []) by reflexivity.
  unfold rid_has. rewrite G1, G2, G3, has_req_in, has_exists.
  destruct (o_rid o); rewrite ?has_exists, !andb_true_r; apply String.eqb_sym.
Qed.

Lemma compat_ct_filter c ofs : compat_offs (ct_reqs c) ofs = filter (fun o => String.eqb c (o_ct o)) ofs.
Proof. unfold compat_offs. apply filter_ext. intros o. apply ct_compat. Qed.

(* pinning the request to spot keeps exactly the spot offerings *)
Lemma pin_spot_ok r : reqs_ok r -> reqs_ok (pin_spot r).
Proof. intros H. unfold pin_spot. apply (add1_inv r (ct_key, req_in [ct_spot])); [apply wf_req_in|exact H]. Qed.

Lemma off_compat_pin r o : reqs_ok r ->
  off_compat (pin_spot r) o = off_compat r o && String.eqb (o_ct o) ct_spot.
Proof.
  intros Hr. rewrite (off_compat_iff _ _ (pin_spot_ok r Hr)), (off_compat_iff _ _ Hr).
  unfold rid_has, pin_spot. rewrite !get_add1.
  assert (E1 : String.eqb ct_key ct_key = true) by reflexivity.
  assert (E2 : String.eqb zone_key ct_key = false) by reflexivity.
  assert (E3 : String.eqb rid_key ct_key = false) by reflexivity.
  rewrite E1, E2, has_req_in.
  destruct (o_rid o); [rewrite get_add1, E3|];
    destruct (String.eqb (o_ct o) ct_spot), (has (get r ct_key) (o_ct o)), (has (get r zone_key) (o_zone o));
    simpl; try reflexivity; destruct (has (get r rid_key) s); reflexivity.
Qed.

Lemma get_pin_ct r v : has (get (pin_spot r) ct_key) v = String.eqb v ct_spot && has (get r ct_key) v.
Proof.
  unfold pin_spot. rewrite get_add1. assert (E : String.eqb ct_key ct_key = true) by reflexivity.
  rewrite E, has_req_in. reflexivity.
Qed.

Lemma usable_In r it o : List.In o (usable r it) <-> List.In o (it_offs it) /\ o_avail o = true /\ off_compat r o = true.
Proof.
  unfold usable, compat_offs, available. rewrite !filter_In. tauto.
Qed.

Lemma usable_pin r it o : reqs_ok r ->
  (List.In o (usable (pin_spot r) it) <-> List.In o (usable r it) /\ o_ct o = ct_spot).
Proof.
  intros Hr. rewrite !usable_In, (off_compat_pin r o Hr), andb_true_iff, String.eqb_eq. tauto.
Qed.

Lemma usable_ct r it o : reqs_ok r -> List.In o (usable r it) -> has (get r ct_key) (o_ct o) = true.
Proof.
  intros Hr Hin. apply usable_In in Hin as (_ & _ & Hc). rewrite (off_compat_iff r o Hr), !andb_true_iff in Hc. tauto.
Qed.

(* ------------------------------------------------------------------ worst launch price *)
Lemma max_price_ge o l : List.In o l -> o_price o <= max_price l.
Proof.
  induction l as [|a l IH]; [intros []|].
  intros [->|Hin].
  - destruct l; simpl; [lia|apply Z.le_max_l].
  - destruct l as [|b l]; [destruct Hin|].
    specialize (IH Hin). change (max_price (a :: b :: l)) with (Z.max (o_price a) (max_price (b :: l))). lia.
Qed.

Lemma has_ct_filter c ofs : has_ct c ofs = match filter (fun o => String.eqb c (o_ct o)) ofs with [] => false | _ => true end.
Proof.
  unfold has_ct. induction ofs as [|o ofs IH]; simpl; [reflexivity|].
  destruct (String.eqb c (o_ct o)); simpl; [reflexivity|exact IH].
Qed.

Lemma wlp_go_spec cs ofs :
  wlp_go cs ofs = match List.find (fun c => has_ct c ofs) cs with
                  | Some c => Some (max_price (filter (fun o => String.eqb c (o_ct o)) ofs))
                  | None => None
                  end.
Proof.
  induction cs as [|c cs IH]; simpl; [reflexivity|].
  rewrite compat_ct_filter, has_ct_filter.
  destruct (filter (fun o => String.eqb c (o_ct o)) ofs) eqn:E; [exact IH|rewrite ?E; reflexivity].
Qed.

Lemma launch_price_usable r it : launch_price r it = wlp_go ct_order (usable r it).
Proof. reflexivity. Qed.

(* the price filter implies the specification's "worst-case launch price strictly below" *)
Lemma price_filter_cheaper r cp it : plt (launch_price r it) (Some cp) = true -> cheaper r cp it.
Proof.
  rewrite launch_price_usable, wlp_go_spec. intros H o c Hin Hl Hc.
  unfold launch_ct in Hl. rewrite Hl in H. simpl in H. apply Z.ltb_lt in H.
  assert (Hf : List.In o (filter (fun o => String.eqb c (o_ct o)) (usable r it))).
  { apply filter_In. split; [exact Hin|]. rewrite Hc. apply String.eqb_refl. }
  pose proof (max_price_ge _ _ Hf). lia.
Qed.

Lemma In_remove_by_price r maxp its it :
  List.In it (remove_by_price r maxp its) -> List.In it its /\ plt (launch_price r it) maxp = true.
Proof. unfold remove_by_price. rewrite filter_In. tauto. Qed.

Lemma has_ct_In c ofs : has_ct c ofs = true <-> exists o, List.In o ofs /\ o_ct o = c.
Proof.
  unfold has_ct. rewrite existsb_exists. split; intros (o & Hin & H); exists o; split; try exact Hin.
  - apply String.eqb_eq in H. symmetry. exact H.
  - subst c. apply String.eqb_refl.
Qed.

Lemma has_ct_false c ofs o : has_ct c ofs = false -> List.In o ofs -> o_ct o <> c.
Proof.
  intros H Hin E. assert (has_ct c ofs = true) by (apply has_ct_In; exists o; split; assumption). congruence.
Qed.

Lemma find_ct_order (P : string -> bool) :
  List.find P ct_order = if P ct_reserved then Some ct_reserved else if P ct_spot then Some ct_spot
                         else if P ct_od then Some ct_od else None.
Proof. reflexivity. Qed.

(* ------------------------------------------------------------------ the guard of the two partial theorems *)
(* an available compatible reserved offering only with requirements that admit neither spot nor on-demand, i.e. the
   scheduler pinned the NodeClaim to its reservation (FinalizeScheduling) *)
Definition reserved_pinned (r : reqs) (opts : list itype) : Prop :=
  forall it o, List.In it opts -> List.In o (usable r it) -> o_ct o = ct_reserved ->
    has (get r ct_key) ct_spot = false /\ has (get r ct_key) ct_od = false.

Definition sim_ok (s : sim) : Prop :=
  forall nc, List.In nc (s_new s) -> reqs_ok (nc_reqs nc).
Definition sim_reserved_pinned (s : sim) : Prop :=
  forall nc, List.In nc (s_new s) -> reserved_pinned (nc_reqs nc) (nc_opts nc).

(* ------------------------------------------------------------------ inversion of compute *)
Lemma firstn_incl {A} n (l : list A) x : List.In x (firstn n l) -> List.In x l.
Proof. revert l. induction n; intros [|a l]; simpl; try tauto. intros [->|H]; [left; reflexivity|right; apply IHn, H]. Qed.

Lemma match_nonempty {A} (l : list A) (X : decision) r o :
  match l with [] => NoOp | _ :: _ => X end = Replace r o -> l <> [] /\ X = Replace r o.
Proof. destruct l; [discriminate|]. intros H. split; [discriminate|exact H]. Qed.

(* the spot-to-spot branch *)
Lemma spot_to_spot_inv flag n r opts cp r' opts' :
  spot_to_spot flag n r opts cp = Replace r' opts' ->
  flag = true /\ r' = pin_spot r /\
  (forall it, List.In it opts' -> List.In it opts /\ plt (launch_price (pin_spot r) it) cp = true) /\
  ((n <= 1)%nat -> (min_spot_to_spot <= length opts')%nat /\
                   (has_min_values (pin_spot r) = false -> length opts' = min_spot_to_spot)).
Proof.
  unfold spot_to_spot. destruct flag; simpl; [|discriminate].
  unfold remove_by_price_mv.
  remember (remove_by_price (pin_spot r) cp (its_compatible (pin_spot r) opts)) as l eqn:El.
  assert (Hl : forall it, List.In it l -> List.In it opts /\ plt (launch_price (pin_spot r) it) cp = true).
  { subst l. intros it Hin. apply In_remove_by_price in Hin as [H1 H2]. split; [|exact H2].
    unfold its_compatible in H1. apply filter_In in H1. tauto. }
  clear El. simpl.
  destruct (snd (sat_min_values l (pin_spot r))); simpl; [|discriminate].
  intros H. apply match_nonempty in H as [_ H]. revert H.
  destruct (1 <? n)%nat eqn:En.
  - intros [= <- <-]. split; [reflexivity|]. split; [reflexivity|]. split; [exact Hl|].
    intros Hn. apply Nat.ltb_lt in En. lia.
  - destruct (length l <? min_spot_to_spot)%nat eqn:E15; [discriminate|]. apply Nat.ltb_ge in E15.
    destruct (has_min_values (pin_spot r)) eqn:Emv; intros [= <- <-];
      (split; [reflexivity|]); (split; [reflexivity|]); split.
    + intros it H. apply Hl, (firstn_incl _ _ _ H).
    + intros _. unfold min_spot_to_spot in *. split; [rewrite firstn_length; lia|intros H; discriminate].
    + intros it H. apply Hl, (firstn_incl _ _ _ H).
    + intros _. unfold min_spot_to_spot in *. split; rewrite firstn_length; lia.
Qed.

Inductive compute_shape (flag : bool) (cands : list cand) (s : sim) (r' : reqs) (opts' : list itype) : Prop :=
| ShapeS2S nc :
    s_new s = [nc] -> forallb (fun c => String.eqb (c_ct c) ct_spot) cands = true ->
    has (get (nc_reqs nc) ct_key) ct_spot = true ->
    spot_to_spot flag (length cands) (nc_reqs nc) (nc_opts nc) (Some (sum_prices cands)) = Replace r' opts' ->
    compute_shape flag cands s r' opts'
| ShapePlain nc :
    s_new s = [nc] ->
    forallb (fun c => String.eqb (c_ct c) ct_spot) cands && has (get (nc_reqs nc) ct_key) ct_spot = false ->
    opts' = remove_by_price (nc_reqs nc) (Some (sum_prices cands)) (nc_opts nc) ->
    r' = (if has (get (nc_reqs nc) ct_key) ct_spot && has (get (nc_reqs nc) ct_key) ct_od then pin_spot (nc_reqs nc) else nc_reqs nc) ->
    compute_shape flag cands s r' opts'.

Lemma compute_replace_inv flag cands s r' opts' :
  compute flag cands s = Replace r' opts' -> all_scheduled s = true /\ compute_shape flag cands s r' opts'.
Proof.
  unfold compute. destruct (all_scheduled s); simpl; [|discriminate].
  destruct (s_new s) as [|nc [|nc2 t]] eqn:En; try discriminate.
  destruct (forallb (fun c => String.eqb (c_ct c) ct_spot) cands && has (get (nc_reqs nc) ct_key) ct_spot) eqn:Eb.
  - intros H. split; [reflexivity|]. apply andb_true_iff in Eb as [E1 E2]. eapply ShapeS2S; eauto.
  - unfold remove_by_price_mv. simpl.
    destruct (snd (sat_min_values _ (nc_reqs nc))); simpl; [|discriminate].
    destruct (remove_by_price (nc_reqs nc) (Some (sum_prices cands)) (nc_opts nc)) eqn:El; [discriminate|].
    intros [= <- <-]. split; [reflexivity|]. eapply ShapePlain; eauto.
Qed.

Lemma spot_to_spot_not_delete flag n r opts cp : spot_to_spot flag n r opts cp <> Delete.
Proof.
  unfold spot_to_spot, remove_by_price_mv. destruct flag; simpl; [|discriminate].
  set (l := remove_by_price (pin_spot r) cp (its_compatible (pin_spot r) opts)). clearbody l.
  destruct (snd (sat_min_values l (pin_spot r))); simpl; [|discriminate].
  intros H. destruct l as [|a l']; [discriminate H|].
  destruct (1 <? n)%nat; [discriminate H|].
  destruct (length (a :: l') <? min_spot_to_spot)%nat; [discriminate H|].
  destruct (has_min_values (pin_spot r)); discriminate H.
Qed.

Lemma compute_counts flag cands s :
  match compute flag cands s with
  | NoOp => True
  | Delete => s_new s = []
  | Replace _ _ => length (s_new s) = 1%nat
  end /\ (compute flag cands s <> NoOp -> all_scheduled s = true).
Proof.
  unfold compute, remove_by_price_mv. destruct (all_scheduled s); cbn [negb]; [|split; [exact I|congruence]].
  split; [|reflexivity].
  destruct (s_new s) as [|nc [|nc2 t]]; try exact I; [reflexivity|].
  destruct (forallb (fun c => String.eqb (c_ct c) ct_spot) cands && has (get (nc_reqs nc) ct_key) ct_spot).
  - destruct (spot_to_spot flag (length cands) (nc_reqs nc) (nc_opts nc) (Some (sum_prices cands))) eqn:E; [exact I| |reflexivity].
    exfalso. exact (spot_to_spot_not_delete _ _ _ _ _ E).
  - cbv beta iota zeta.
    set (l := remove_by_price (nc_reqs nc) (Some (sum_prices cands)) (nc_opts nc)). clearbody l.
    destruct (snd (sat_min_values l (nc_reqs nc))); cbn [negb]; [|exact I].
    destruct l; [exact I|reflexivity].
Qed.

(* ------------------------------------------------------------------ T1: replacement strictly cheaper (partial) *)
Lemma replacement_strictly_cheaper_partial_l flag cands s r opts :
  compute flag cands s = Replace r opts -> sim_ok s -> sim_reserved_pinned s ->
  forall it, List.In it opts -> cheaper r (sum_prices cands) it.
Proof.
  intros Hc Hok Hg it Hin. apply compute_replace_inv in Hc as [_ Hs].
  destruct Hs as [nc En Hall Hspot Hs2s | nc En Hb Hopts Hr].
  - apply spot_to_spot_inv in Hs2s as (_ & -> & Hl & _). apply price_filter_cheaper, Hl, Hin.
  - subst opts. apply In_remove_by_price in Hin as [Hin Hp].
    assert (Hrk : reqs_ok (nc_reqs nc)) by (apply Hok; rewrite En; left; reflexivity).
    assert (Hgd : reserved_pinned (nc_reqs nc) (nc_opts nc)) by (apply Hg; rewrite En; left; reflexivity).
    destruct (has (get (nc_reqs nc) ct_key) ct_spot && has (get (nc_reqs nc) ct_key) ct_od) eqn:Epin; subst r.
    + (* pinned to spot after a filter that looked at the unpinned requirements *)
      apply andb_true_iff in Epin as [Es Eo].
      intros o c Ho Hl Hct. apply (usable_pin _ it o Hrk) in Ho as [Ho Hspot].
      rewrite launch_price_usable, wlp_go_spec in Hp.
      assert (Hres : has_ct ct_reserved (usable (nc_reqs nc) it) = false).
      { destruct (has_ct ct_reserved (usable (nc_reqs nc) it)) eqn:E; [|reflexivity].
        apply has_ct_In in E as (o' & Ho' & Hc'). destruct (Hgd it o' Hin Ho' Hc'). congruence. }
      assert (Hsp : has_ct ct_spot (usable (nc_reqs nc) it) = true) by (apply has_ct_In; exists o; split; assumption).
      rewrite find_ct_order, Hres, Hsp in Hp. cbv iota in Hp. unfold plt in Hp. apply Z.ltb_lt in Hp.
      assert (Hf : List.In o (filter (fun o => String.eqb ct_spot (o_ct o)) (usable (nc_reqs nc) it))).
      { apply filter_In. split; [exact Ho|]. rewrite Hspot. apply String.eqb_refl. }
      pose proof (max_price_ge _ _ Hf). lia.
    + apply price_filter_cheaper, Hp.
Qed.

(* ------------------------------------------------------------------ T2: no on-demand fallback (partial) *)
Lemma spot_ne_od : ct_spot <> ct_od. Proof. discriminate. Qed.

Lemma no_od_fallback_partial_l flag cands s r opts :
  compute flag cands s = Replace r opts -> sim_ok s -> sim_reserved_pinned s ->
  forall it, List.In it opts -> od_safe r (sum_prices cands) it.
Proof.
  intros Hc Hok Hg it Hin. apply compute_replace_inv in Hc as [_ Hs].
  destruct Hs as [nc En Hall Hspot Hs2s | nc En Hb Hopts Hr];
    assert (Hrk : reqs_ok (nc_reqs nc)) by (apply Hok; rewrite En; left; reflexivity).
  - apply spot_to_spot_inv in Hs2s as (_ & -> & _). intros o Ho Hod.
    apply (usable_pin _ it o Hrk) in Ho as [_ Hsp]. exfalso. apply spot_ne_od. congruence.
  - subst opts. apply In_remove_by_price in Hin as [Hin Hp].
    assert (Hgd : reserved_pinned (nc_reqs nc) (nc_opts nc)) by (apply Hg; rewrite En; left; reflexivity).
    destruct (has (get (nc_reqs nc) ct_key) ct_spot && has (get (nc_reqs nc) ct_key) ct_od) eqn:Epin; subst r.
    + intros o Ho Hod. apply (usable_pin _ it o Hrk) in Ho as [_ Hsp]. exfalso. apply spot_ne_od. congruence.
    + intros o Ho Hod.
      assert (Eod : has (get (nc_reqs nc) ct_key) ct_od = true) by (rewrite <- Hod; apply (usable_ct _ it o Hrk Ho)).
      rewrite Eod, andb_true_r in Epin.
      rewrite launch_price_usable, wlp_go_spec in Hp.
      assert (Hres : has_ct ct_reserved (usable (nc_reqs nc) it) = false).
      { destruct (has_ct ct_reserved (usable (nc_reqs nc) it)) eqn:E; [|reflexivity].
        apply has_ct_In in E as (o' & Ho' & Hc'). destruct (Hgd it o' Hin Ho' Hc'). congruence. }
      assert (Hsp : has_ct ct_spot (usable (nc_reqs nc) it) = false).
      { destruct (has_ct ct_spot (usable (nc_reqs nc) it)) eqn:E; [|reflexivity].
        apply has_ct_In in E as (o' & Ho' & Hc'). pose proof (usable_ct _ it o' Hrk Ho') as H. rewrite Hc' in H. congruence. }
      assert (Hodc : has_ct ct_od (usable (nc_reqs nc) it) = true) by (apply has_ct_In; exists o; split; assumption).
      rewrite find_ct_order, Hres, Hsp, Hodc in Hp. cbv iota in Hp. unfold plt in Hp. apply Z.ltb_lt in Hp.
      assert (Hf : List.In o (filter (fun o => String.eqb ct_od (o_ct o)) (usable (nc_reqs nc) it))).
      { apply filter_In. split; [exact Ho|]. rewrite Hod. apply String.eqb_refl. }
      pose proof (max_price_ge _ _ Hf). lia.
Qed.

(* ------------------------------------------------------------------ T3: spot-to-spot is guarded *)
Lemma forallb_map_ct cands :
  (forall c, List.In c (map c_ct cands) -> c = ct_spot) -> forallb (fun c => String.eqb (c_ct c) ct_spot) cands = true.
Proof.
  intros H. apply forallb_forall. intros c Hin. apply String.eqb_eq, H, in_map, Hin.
Qed.

Lemma spot_to_spot_guarded_l flag cands s r opts :
  compute flag cands s = Replace r opts -> s2s_ok flag (map c_ct cands) r (length opts).
Proof.
  intros Hc Hall Hhas. apply compute_replace_inv in Hc as [_ Hs]. rewrite map_length.
  destruct Hs as [nc En _ Hspot Hs2s | nc En Hb Hopts Hr].
  - apply spot_to_spot_inv in Hs2s as (Hf & _ & _ & Hn). split; [exact Hf|]. intros H1. apply Hn. lia.
  - exfalso. rewrite (forallb_map_ct _ Hall) in Hb. simpl in Hb.
    destruct (has (get (nc_reqs nc) ct_key) ct_spot && has (get (nc_reqs nc) ct_key) ct_od) eqn:Epin; subst r.
    + rewrite Hb in Epin. discriminate.
    + congruence.
Qed.

(* a spot-to-spot replacement can only launch spot, and (one candidate, no minValues) carries exactly 15 types *)
Lemma spot_to_spot_request_l flag cands s r opts nc :
  compute flag cands s = Replace r opts -> s_new s = [nc] ->
  (forall c, List.In c cands -> c_ct c = ct_spot) -> has (get (nc_reqs nc) ct_key) ct_spot = true ->
  r = pin_spot (nc_reqs nc) /\ (forall v, has (get r ct_key) v = true -> v = ct_spot) /\
  (length cands = 1%nat -> has_min_values r = false -> length opts = min_spot_to_spot).
Proof.
  intros Hc En Hall Hhas. apply compute_replace_inv in Hc as [_ Hs].
  assert (Hfa : forallb (fun c => String.eqb (c_ct c) ct_spot) cands = true).
  { apply forallb_forall. intros c Hin. apply String.eqb_eq, Hall, Hin. }
  destruct Hs as [nc' En' _ _ Hs2s | nc' En' Hb _ _]; rewrite En in En'; inversion En'; subst nc'.
  - apply spot_to_spot_inv in Hs2s as (_ & -> & _ & Hn). split; [reflexivity|]. split.
    + intros v Hv. rewrite get_pin_ct, andb_true_iff in Hv. apply String.eqb_eq, Hv.
    + intros H1 Hmv. apply Hn; [lia|exact Hmv].
  - rewrite Hfa, Hhas in Hb. discriminate.
Qed.

(* ------------------------------------------------------------------ T4: pods have a home *)
Definition wf_sim (s : sim) : Prop :=
  forall p i, List.In p (s_pods s) -> pp_where p = PNew i -> (i < length (s_new s))%nat.

Lemma pods_have_home_l flag cands s :
  compute flag cands s <> NoOp -> wf_sim s ->
  (length (s_new s) <= 1)%nat /\
  forall p, List.In p (s_pods s) -> pp_origin p = OnCandidate -> good_place (length (s_new s)) (pp_where p) = true.
Proof.
  intros Hne Hwf. destruct (compute_counts flag cands s) as [Hcnt Hall]. specialize (Hall Hne).
  assert (Hlen : (length (s_new s) <= 1)%nat).
  { destruct (compute flag cands s); [congruence|rewrite Hcnt; simpl; lia|lia]. }
  split; [exact Hlen|]. intros p Hin Ho.
  unfold all_scheduled in Hall. rewrite forallb_forall in Hall. specialize (Hall p Hin).
  unfold provisionable, errored in Hall. rewrite Ho in Hall. rewrite orb_false_r in Hall.
  destruct (pp_where p) as [|n [|]|i] eqn:Ew; simpl in *; try discriminate; [reflexivity|].
  specialize (Hwf p i Hin Ew). destruct i; [|lia]. apply Nat.eqb_eq. lia.
Qed.

(* ------------------------------------------------------------------ T5: emptiness *)
Lemma resched_ge l : two27 <= fold_right (fun p a => Z.max 0 p + a) two27 l.
Proof. induction l; simpl; lia. Qed.

Lemma resched_le_iff l : fold_right (fun p a => Z.max 0 p + a) two27 l <= two27 <-> Forall (fun p => p <= 0) l.
Proof.
  induction l as [|p l IH]; simpl.
  - split; [constructor|lia].
  - pose proof (resched_ge l). split.
    + intros H1. constructor; [lia|]. apply IH. lia.
    + intros HF. inversion HF; subst. apply IH in H3. lia.
Qed.

Lemma is_empty_iff c : is_empty c = true <-> forall p, List.In p (c_pods c) -> p <= 0.
Proof.
  unfold is_empty, resched_cost. rewrite Z.leb_le, resched_le_iff, Forall_forall. tauto.
Qed.

Lemma empty_means_no_positive_cost_l cs c :
  List.In c (emptiness cs) <-> List.In c cs /\ forall p, List.In p (c_pods c) -> p <= 0.
Proof. unfold emptiness. rewrite filter_In, is_empty_iff. tauto. Qed.

Lemma emptiness_empty_ok cs : empty_ok (emptiness cs).
Proof. intros c p Hc Hp. apply empty_means_no_positive_cost_l in Hc as [_ H]. apply H, Hp. Qed.

(* with positive eviction costs (the default cost is 1) an empty node runs no reschedulable pod *)
Lemma emptiness_no_pods_partial_l cs c :
  (forall p, List.In p (c_pods c) -> 0 < p) -> List.In c (emptiness cs) -> c_pods c = [].
Proof.
  intros Hpos Hin. apply empty_means_no_positive_cost_l in Hin as [_ H].
  destruct (c_pods c) as [|p l]; [reflexivity|].
  specialize (Hpos p (or_introl eq_refl)). specialize (H p (or_introl eq_refl)). lia.
Qed.

(* Emptiness runs no simulation (by design: the property defines emptiness by eviction costs). A node whose pods all
   have eviction cost <= 0 is selected; this is the boundary: deletion cost -2^27 gives cost exactly 0. *)
Lemma emptiness_zero_cost_boundary_l :
  eviction_cost (-134217728) 0 = 0 /\ eviction_cost (-134217727) 0 = 1 /\ eviction_cost 0 0 = two27 /\
  is_empty (mkCand "n" "c" ct_od "z" None [] [eviction_cost (-134217728) 0]) = true /\
  is_empty (mkCand "n" "c" ct_od "z" None [] [eviction_cost (-134217727) 0]) = false.
Proof. vm_compute. repeat split; reflexivity. Qed.

(* ------------------------------------------------------------------ T6: multi-node and single-node lift *)
Lemma incl_remove_by_price r maxp its : incl (remove_by_price r maxp its) its.
Proof. intros x H. apply In_remove_by_price in H. tauto. Qed.

Lemma multi_probe_inv ap flag cs s d :
  multi_probe_ev ap flag cs s = Some d ->
  (d = Delete /\ compute flag cs s = Delete) \/
  (exists r opts opts', d = Replace r opts' /\ compute flag cs s = Replace r opts /\ incl opts' opts /\ opts' <> [] /\
     forall it, List.In it opts' -> plt (launch_price r it) (same_type_max_price opts cs) = true).
Proof.
  unfold multi_probe_ev. destruct (compute flag cs s) as [| |r opts] eqn:Ec; [discriminate| |].
  { destruct (ap cs Delete); [|discriminate]. intros [= <-]. left. split; reflexivity. }
  unfold filter_out_same_type, remove_by_price_mv.
  destruct (snd (sat_min_values _ r)); [|discriminate].
  destruct (remove_by_price r (same_type_max_price opts cs) opts) as [|a l] eqn:El; [discriminate|].
  destruct (ap cs (Replace r (a :: l))); [|discriminate].
  intros [= <-]. right. exists r, opts, (a :: l). rewrite <- El. repeat split.
  - apply incl_remove_by_price.
  - rewrite El. discriminate.
  - intros it Hin. apply In_remove_by_price in Hin. tauto.
Qed.

Lemma first_n_go_inv ap fuel flag cs sims : forall lo hi last k d,
  (forall k0 d0, last = Some (k0, d0) -> multi_probe_ev ap flag (firstn k0 cs) (sims k0) = Some d0) ->
  first_n_go ap fuel flag cs sims lo hi last = Some (k, d) ->
  multi_probe_ev ap flag (firstn k cs) (sims k) = Some d.
Proof.
  induction fuel as [|f IH]; intros lo hi last k d Hlast; simpl.
  - intros H. apply Hlast, H.
  - destruct (hi <? lo); [intros H; apply Hlast, H|].
    destruct (multi_probe_ev ap flag (firstn (Z.to_nat ((lo + hi) / 2 + 1)) cs) (sims (Z.to_nat ((lo + hi) / 2 + 1)))) as [d1|] eqn:Ep.
    + apply IH. intros k0 d0 [= <- <-]. exact Ep.
    + apply IH. exact Hlast.
Qed.

Lemma first_n_inv ap flag cs sims k d :
  first_n_ev ap flag cs sims = Some (k, d) -> multi_probe_ev ap flag (firstn k cs) (sims k) = Some d.
Proof.
  unfold first_n_ev. destruct (Z.of_nat (length cs) <? 2); [discriminate|].
  apply first_n_go_inv. intros k0 d0 H. discriminate.
Qed.

Lemma single_inv ap cp flag l c d :
  single_ev ap cp flag l = Some (c, d) -> exists s, List.In (c, s) l /\ compute flag [c] s = d /\ d <> NoOp.
Proof.
  induction l as [|[c0 s0] l IH]; simpl; [discriminate|].
  assert (Hrec : single_ev ap cp flag l = Some (c, d) -> exists s, List.In (c, s) l /\ compute flag [c] s = d /\ d <> NoOp) by exact IH.
  assert (Hr : single_ev ap cp flag l = Some (c, d) -> exists s, List.In (c, s) ((c0, s0) :: l) /\ compute flag [c] s = d /\ d <> NoOp).
  { intros H. destruct (Hrec H) as (s & Hin & Hd). exists s. split; [right; exact Hin|exact Hd]. }
  destruct (cp c0); simpl; [|exact Hr].
  destruct (compute flag [c0] s0) eqn:Ec; [exact Hr| |].
  - destruct (ap [c0] Delete); [|exact Hr]. intros [= <- <-]. exists s0. split; [left; reflexivity|]. split; [exact Ec|discriminate].
  - destruct (ap [c0] (Replace r opts)); [|exact Hr]. intros [= <- <-]. exists s0. split; [left; reflexivity|]. split; [exact Ec|discriminate].
Qed.

(* every command the multi-node search returns satisfies the same price guarantees *)
Lemma multi_strictly_cheaper_partial_l ap flag cs sims k r opts :
  first_n_ev ap flag cs sims = Some (k, Replace r opts) -> sim_ok (sims k) -> sim_reserved_pinned (sims k) ->
  forall it, List.In it opts -> cheaper r (sum_prices (firstn k cs)) it /\ od_safe r (sum_prices (firstn k cs)) it.
Proof.
  intros H Hok Hg it Hin. apply first_n_inv, multi_probe_inv in H as [[H _]|(r0 & o0 & o' & E & Hc & Hincl & _)]; [discriminate|].
  inversion E; subst r0 o'. split.
  - eapply replacement_strictly_cheaper_partial_l; eauto.
  - eapply no_od_fallback_partial_l; eauto.
Qed.

Lemma multi_pods_have_home_l ap flag cs sims k d :
  first_n_ev ap flag cs sims = Some (k, d) -> wf_sim (sims k) ->
  (2 <= k)%nat /\ (length (s_new (sims k)) <= 1)%nat /\
  forall p, List.In p (s_pods (sims k)) -> pp_origin p = OnCandidate ->
    good_place (length (s_new (sims k))) (pp_where p) = true.
Proof.
  intros H Hwf. pose proof H as H0. apply first_n_inv in H.
  assert (Hne : compute flag (firstn k cs) (sims k) <> NoOp).
  { apply multi_probe_inv in H as [[_ Hc]|(r & o & o' & _ & Hc & _)]; rewrite Hc; discriminate. }
  split; [|apply (pods_have_home_l _ _ _ Hne Hwf)].
  (* the search only probes prefixes of at least two candidates *)
  clear H Hne Hwf. unfold first_n_ev in H0. destruct (Z.of_nat (length cs) <? 2); [discriminate|].
  revert H0. generalize (S (length cs)) as fuel.
  assert (G : forall fuel lo hi last, 1 <= lo ->
            (forall k0 d0, last = Some (k0, d0) -> (2 <= k0)%nat) ->
            first_n_go ap fuel flag cs sims lo hi last = Some (k, d) -> (2 <= k)%nat).
  { induction fuel as [|f IH]; intros lo hi last Hlo Hl; simpl.
    - intros E. eapply Hl, E.
    - destruct (hi <? lo) eqn:Ehl; [intros E; eapply Hl, E|]. apply Z.ltb_ge in Ehl.
      assert (Hmid : 1 <= (lo + hi) / 2) by (apply Z.div_le_lower_bound; lia).
      destruct (multi_probe_ev _ _ _ _) as [d1|].
      + apply IH; [lia|]. intros k1 d2 [= <- <-]. lia.
      + apply IH; [lia|exact Hl]. }
  intros fuel. apply G; [lia|]. intros k0 d0 E. discriminate.
Qed.

(* ------------------------------------------------------------------ T7: validation *)
Lemma NoDup_dedup l : NoDup (dedup l).
Proof.
  induction l as [|x l IH]; simpl; [constructor|].
  destruct (mem x l) eqn:E; [exact IH|]. constructor; [|exact IH].
  intros Hin. apply mem_In in Hin. rewrite mem_dedup in Hin. congruence.
Qed.

Lemma names_subset_incl l r : names_subset l r = true -> incl l r.
Proof.
  unfold names_subset. intros H. apply Nat.eqb_eq in H.
  assert (Hnd : NoDup (sinter (dedup r) (dedup l))) by (apply NoDup_filter, NoDup_dedup).
  assert (Hincl : incl (sinter (dedup r) (dedup l)) (dedup l)).
  { intros x Hx. apply mem_In. apply mem_In in Hx. rewrite mem_sinter, andb_true_iff in Hx. tauto. }
  assert (Hrev : incl (dedup l) (sinter (dedup r) (dedup l))).
  { apply NoDup_length_incl; [exact Hnd|lia|exact Hincl]. }
  intros x Hx. assert (Hd : List.In x (dedup l)) by (apply mem_In; rewrite mem_dedup; apply mem_In, Hx).
  apply Hrev, mem_In in Hd. rewrite mem_sinter, andb_true_iff, mem_dedup in Hd. apply mem_In, Hd.
Qed.

Lemma validate_command_l nrepl repl s :
  validate_command nrepl repl s = true ->
  all_scheduled s = true /\
  match s_new s with
  | [] => nrepl = 0%nat
  | [nc] => nrepl <> 0%nat /\ incl repl (map it_name (nc_opts nc))
  | _ => False
  end.
Proof.
  unfold validate_command. destruct (all_scheduled s); simpl; [|discriminate]. intros H. split; [reflexivity|].
  destruct (s_new s) as [|nc [|]]; [apply Nat.eqb_eq, H| |discriminate].
  destruct (Nat.eqb nrepl 0) eqn:E; [discriminate|]. apply Nat.eqb_neq in E. split; [exact E|apply names_subset_incl, H].
Qed.

(* a validated command: every pod bound to a candidate at validation time (the re-simulation covers them: it is run over
   the candidates rebuilt from the current cluster state) has a home, and the number of new NodeClaims is the command's *)
Definition covers (expect : list Z) (s : sim) : Prop :=
  forall id, List.In id expect -> exists p, List.In p (s_pods s) /\ pp_id p = id /\ pp_origin p = OnCandidate.

Lemma validated_command_pods_have_home_l present nominated budget_ok nrepl repl s expect :
  validate present nominated budget_ok nrepl repl s = true -> wf_sim s -> covers expect s ->
  present = true /\ nominated = false /\
  (length (s_new s) <= 1)%nat /\ (nrepl = 0%nat <-> s_new s = []) /\
  (forall nc, s_new s = [nc] -> incl repl (map it_name (nc_opts nc))) /\
  forall id, List.In id expect ->
    exists p, List.In p (s_pods s) /\ pp_id p = id /\ good_place (length (s_new s)) (pp_where p) = true.
Proof.
  unfold validate. rewrite !andb_true_iff, negb_true_iff. intros [[[Hp Hn] _] Hv] Hwf Hcov.
  apply validate_command_l in Hv as [Hall Hs].
  split; [exact Hp|]. split; [exact Hn|].
  assert (Hlen : (length (s_new s) <= 1)%nat) by (destruct (s_new s) as [|nc [|]]; simpl; try lia; destruct Hs).
  split; [exact Hlen|]. split.
  { destruct (s_new s) as [|nc [|]]; [tauto| |destruct Hs]. destruct Hs as [Hs _]. split; [tauto|discriminate]. }
  split.
  { intros nc E. rewrite E in Hs. tauto. }
  intros id Hid. destruct (Hcov id Hid) as (p & Hin & Hpid & Ho). exists p. split; [exact Hin|]. split; [exact Hpid|].
  unfold all_scheduled in Hall. rewrite forallb_forall in Hall. specialize (Hall p Hin).
  unfold provisionable, errored in Hall. rewrite Ho, orb_false_r in Hall.
  destruct (pp_where p) as [|n [|]|i] eqn:Ew; simpl in *; try discriminate; [reflexivity|].
  specialize (Hwf p i Hin Ew). destruct i; [|lia]. apply Nat.eqb_eq. lia.
Qed.

Lemma map_candidates_current proposed current c :
  List.In c (map_candidates proposed current) -> List.In c current /\ mem (c_name c) proposed = true.
Proof. unfold map_candidates. rewrite filter_In. tauto. Qed.

Lemma validate_empty_l proposed current names :
  validate_empty proposed current = Some names ->
  forall n, List.In n names -> exists c nom, List.In (c, nom) current /\ c_name c = n /\ mem n proposed = true /\
     nom = false /\ forall p, List.In p (c_pods c) -> p <= 0.
Proof.
  unfold validate_empty.
  set (fl := filter (fun cn : cand * bool => mem (c_name (fst cn)) proposed && is_empty (fst cn) && negb (snd cn)) current).
  intros H. assert (E : names = map (fun cn : cand * bool => c_name (fst cn)) fl).
  { destruct fl; [discriminate|]. inversion H. reflexivity. }
  subst names. clear H. intros n Hn.
  apply in_map_iff in Hn as ([c nom] & <- & Hin). apply filter_In in Hin as [Hin Hb].
  simpl in Hb. rewrite !andb_true_iff, negb_true_iff in Hb. destruct Hb as [[Hm He] Hno].
  exists c, nom. repeat split; try assumption. apply is_empty_iff, He.
Qed.

(* ------------------------------------------------------------------ the oracles reflect the specification *)
Lemma cheaper_b_iff r cp it : cheaper_b r cp it = true <-> cheaper r cp it.
Proof.
  unfold cheaper_b, cheaper. destruct (launch_ct r it) as [c|].
  - rewrite forallb_forall. split.
    + intros H o c' Hin [= <-] Hc. specialize (H o Hin). rewrite Hc, String.eqb_refl in H. simpl in H. apply Z.ltb_lt, H.
    + intros H o Hin. destruct (String.eqb_spec c (o_ct o)) as [E|]; [|reflexivity]. simpl. apply Z.ltb_lt.
      apply (H o c Hin eq_refl). symmetry. exact E.
  - split; [intros _ o c _ H; discriminate|reflexivity].
Qed.

Lemma od_safe_b_iff r cp it : od_safe_b r cp it = true <-> od_safe r cp it.
Proof.
  unfold od_safe_b, od_safe. rewrite forallb_forall. split.
  - intros H o Hin Hc. specialize (H o Hin). rewrite Hc, String.eqb_refl in H. simpl in H. apply Z.ltb_lt, H.
  - intros H o Hin. destruct (String.eqb_spec ct_od (o_ct o)) as [E|]; [|reflexivity]. simpl. apply Z.ltb_lt.
    apply (H o Hin). symmetry. exact E.
Qed.

Lemma s2s_ok_b_iff flag cts r n : s2s_ok_b flag cts r n = true <-> s2s_ok flag cts r n.
Proof.
  unfold s2s_ok_b, s2s_ok. split.
  - intros H Hall Hhas.
    assert (Ha : forallb (fun c => String.eqb c ct_spot) cts = true) by (apply forallb_forall; intros c Hc; apply String.eqb_eq, Hall, Hc).
    rewrite Ha, Hhas in H. cbn [negb orb andb] in H. apply andb_true_iff in H as [Hf Hn]. split; [exact Hf|].
    intros H1. rewrite H1, Nat.eqb_refl in Hn. cbn [negb orb] in Hn. apply Nat.leb_le, Hn.
  - intros H. destruct (forallb (fun c => String.eqb c ct_spot) cts) eqn:Ea; [|reflexivity].
    destruct (has (get r ct_key) ct_spot) eqn:Eh; [|reflexivity]. cbn [negb orb andb].
    assert (Hall : forall c, List.In c cts -> c = ct_spot).
    { intros c Hc. rewrite forallb_forall in Ea. apply String.eqb_eq, Ea, Hc. }
    destruct (H Hall eq_refl) as [Hf Hn]. rewrite Hf. cbn [andb].
    destruct (Nat.eqb (length cts) 1) eqn:E1; [|reflexivity]. cbn [negb orb]. apply Nat.leb_le, Hn, Nat.eqb_eq, E1.
Qed.

Lemma cheaper_cmd_b_iff cat cp c : cheaper_cmd_b cat cp c = true <-> cheaper_cmd cat cp c.
Proof.
  destruct c; simpl; try tauto. rewrite forallb_forall. split; intros H it Hin; apply cheaper_b_iff, H, Hin.
Qed.
Lemma od_cmd_b_iff cat cp c : od_cmd_b cat cp c = true <-> od_cmd cat cp c.
Proof.
  destruct c; simpl; try tauto. rewrite forallb_forall. split; intros H it Hin; apply od_safe_b_iff, H, Hin.
Qed.
Lemma s2s_cmd_b_iff flag cts c : s2s_cmd_b flag cts c = true <-> s2s_cmd flag cts c.
Proof. destruct c; simpl; try tauto. apply s2s_ok_b_iff. Qed.

Lemma home_b_iff o : home_b o = true <-> home o.
Proof.
  unfold home_b, home.
  assert (G : forallb (fun id => existsb (fun p => (pp_id p =? id) && good_place (ob_nnew o) (pp_where p)) (ob_pods o)) (ob_expect o) = true <->
              forall id, List.In id (ob_expect o) -> exists p, List.In p (ob_pods o) /\ pp_id p = id /\ good_place (ob_nnew o) (pp_where p) = true).
  { rewrite forallb_forall. split; intros H id Hin; specialize (H id Hin).
    - apply existsb_exists in H as (p & Hp & Hb). apply andb_true_iff in Hb as [E Hg]. exists p. repeat split; [exact Hp|apply Z.eqb_eq, E|exact Hg].
    - apply existsb_exists. destruct H as (p & Hp & E & Hg). exists p. split; [exact Hp|]. rewrite Hg, andb_true_r. apply Z.eqb_eq, E. }
  destruct (ob_cmd o); [tauto| |]; rewrite andb_true_iff, G; tauto.
Qed.

Lemma empty_b_iff cs : empty_b cs = true <-> empty_ok cs.
Proof.
  unfold empty_b, empty_ok. rewrite forallb_forall. split.
  - intros H c p Hc Hp. specialize (H c Hc). rewrite forallb_forall in H. apply Z.leb_le, H, Hp.
  - intros H c Hc. apply forallb_forall. intros p Hp. apply Z.leb_le, (H c p Hc Hp).
Qed.

(* ------------------------------------------------------------------ refutations (the unguarded statements fail) *)
(* on-demand node c0 at 4.0; t00 offers reserved 0.125 (available, but not reserved by the scheduler), spot 5.0,
   on-demand 6.0, all in z1. The reserved price passes the filter; the request is then pinned to spot. *)
Definition f_t00 : itype :=
  mkIT "t00" [mkOff ct_reserved "z1" (Some "r-t00-z1") 128 true; mkOff ct_od "z1" None 6144 true; mkOff ct_spot "z1" None 5120 true] [].
Definition f_cand : cand := mkCand "n0" "c0" ct_od "z1" None [mkOff ct_od "z1" None 4096 true] [two27].
Definition f_sim (r : reqs) : sim := mkSim [mkPP 0 OnCandidate (PNew 0)] [mkNC r [f_t00]].

Lemma replacement_strictly_cheaper_refuted_l :
  exists flag cands s r opts it,
    compute flag cands s = Replace r opts /\ sim_ok s /\ wf_sim s /\ List.In it opts /\ ~ cheaper r (sum_prices cands) it.
Proof.
  exists false, [f_cand], (f_sim []), (pin_spot []), [f_t00], f_t00.
  split; [vm_compute; reflexivity|]. split.
  { intros nc [<-|[]]. simpl. split; [intros ? ? []|constructor]. }
  split. { intros p i [<-|[]] [= <-]. simpl. lia. }
  split; [left; reflexivity|].
  intros H. apply cheaper_b_iff in H. vm_compute in H. discriminate.
Qed.

Definition f_reqs_res_od : reqs := [(ct_key, req_in [ct_od; ct_reserved])].

Lemma no_od_fallback_refuted_l :
  exists flag cands s r opts it,
    compute flag cands s = Replace r opts /\ sim_ok s /\ wf_sim s /\ List.In it opts /\ ~ od_safe r (sum_prices cands) it.
Proof.
  exists false, [f_cand], (f_sim f_reqs_res_od), f_reqs_res_od, [f_t00], f_t00.
  split; [vm_compute; reflexivity|]. split.
  { intros nc [<-|[]]. simpl. split.
    - intros k r [E|[]]. inversion E. apply wf_req_in.
    - unfold nodup_keys. simpl. repeat constructor. simpl. tauto. }
  split. { intros p i [<-|[]] [= <-]. simpl. lia. }
  split; [left; reflexivity|].
  intros H. apply od_safe_b_iff in H. vm_compute in H. discriminate.
Qed.
