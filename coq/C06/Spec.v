(* C06 — the property as Props over a command (written from the property text and the launch semantics: an instance
   is launched from an AVAILABLE offering COMPATIBLE with the request's requirements, the capacity type being chosen with
   precedence reserved, spot, on-demand), and their boolean reflections (the oracles). Equivalences: Proofs.v. *)
From KV Require Export C06.Model.
Open Scope string_scope.
Open Scope list_scope.
Open Scope Z_scope.

(* the offerings a launch of [it] under requirements [r] can use *)
Definition usable (r : reqs) (it : itype) : list offering := compat_offs r (available (it_offs it)).
Definition has_ct (c : string) (ofs : list offering) : bool := existsb (fun o => String.eqb c (o_ct o)) ofs.
(* the capacity type the launch will use *)
Definition launch_ct (r : reqs) (it : itype) : option string := List.find (fun c => has_ct c (usable r it)) ct_order.

(* worst-case launch price strictly below [cp] *)
Definition cheaper (r : reqs) (cp : Z) (it : itype) : Prop :=
  forall o c, List.In o (usable r it) -> launch_ct r it = Some c -> o_ct o = c -> o_price o < cp.
Definition cheaper_b (r : reqs) (cp : Z) (it : itype) : bool :=
  match launch_ct r it with
  | None => true
  | Some c => forallb (fun o => negb (String.eqb c (o_ct o)) || (o_price o <? cp)) (usable r it)
  end.

(* no on-demand offering the request could fall back to costs [cp] or more *)
Definition od_safe (r : reqs) (cp : Z) (it : itype) : Prop :=
  forall o, List.In o (usable r it) -> o_ct o = ct_od -> o_price o < cp.
Definition od_safe_b (r : reqs) (cp : Z) (it : itype) : bool :=
  forallb (fun o => negb (String.eqb ct_od (o_ct o)) || (o_price o <? cp)) (usable r it).

(* spot-to-spot: all removed nodes are spot and the request may launch spot *)
Definition s2s_ok (flag : bool) (cts : list string) (r : reqs) (nopts : nat) : Prop :=
  (forall c, List.In c cts -> c = ct_spot) -> has (get r ct_key) ct_spot = true ->
  flag = true /\ (length cts = 1%nat -> (min_spot_to_spot <= nopts)%nat).
Definition s2s_ok_b (flag : bool) (cts : list string) (r : reqs) (nopts : nat) : bool :=
  negb (forallb (fun c => String.eqb c ct_spot) cts) || negb (has (get r ct_key) ct_spot) ||
  (flag && (negb (Nat.eqb (length cts) 1) || (min_spot_to_spot <=? nopts)%nat)).

(* ---- observations of an emitted command ---- *)
Inductive ocmd := ONoOp | ODelete | OReplace (r : reqs) (names : list string).
Record obs := mkObs {
  ob_cmd : ocmd;
  ob_pods : list pplace;      (* Command.Results: where every simulated pod went *)
  ob_nnew : nat;              (* len(Command.Results.NewNodeClaims) *)
  ob_expect : list Z          (* the currently reschedulable pods of the command's candidates *)
}.

Definition lookup (cat : list itype) (n : string) : option itype :=
  List.find (fun it => String.eqb (it_name it) n) cat.
Definition resolve (cat : list itype) (names : list string) : list itype :=
  flat_map (fun n => match lookup cat n with Some it => [it] | None => [] end) names.

Definition cheaper_cmd (cat : list itype) (cp : Z) (c : ocmd) : Prop :=
  match c with OReplace r names => forall it, List.In it (resolve cat names) -> cheaper r cp it | _ => True end.
Definition cheaper_cmd_b (cat : list itype) (cp : Z) (c : ocmd) : bool :=
  match c with OReplace r names => forallb (cheaper_b r cp) (resolve cat names) | _ => true end.
Definition od_cmd (cat : list itype) (cp : Z) (c : ocmd) : Prop :=
  match c with OReplace r names => forall it, List.In it (resolve cat names) -> od_safe r cp it | _ => True end.
Definition od_cmd_b (cat : list itype) (cp : Z) (c : ocmd) : bool :=
  match c with OReplace r names => forallb (od_safe_b r cp) (resolve cat names) | _ => true end.
Definition s2s_cmd (flag : bool) (cts : list string) (c : ocmd) : Prop :=
  match c with OReplace r names => s2s_ok flag cts r (length names) | _ => True end.
Definition s2s_cmd_b (flag : bool) (cts : list string) (c : ocmd) : bool :=
  match c with OReplace r names => s2s_ok_b flag cts r (length names) | _ => true end.

(* a feasible home: an initialized remaining node, or the single replacement *)
Definition good_place (nnew : nat) (w : place) : bool :=
  match w with
  | PExisting _ true => true
  | PNew O => Nat.eqb nnew 1
  | _ => false
  end.
Definition new_count_ok (c : ocmd) (nnew : nat) : bool :=
  match c with ONoOp => true | ODelete => Nat.eqb nnew 0 | OReplace _ _ => Nat.eqb nnew 1 end.
Definition home (o : obs) : Prop :=
  match ob_cmd o with
  | ONoOp => True
  | c => new_count_ok c (ob_nnew o) = true /\
         forall id, List.In id (ob_expect o) ->
           exists p, List.In p (ob_pods o) /\ pp_id p = id /\ good_place (ob_nnew o) (pp_where p) = true
  end.
Definition home_b (o : obs) : bool :=
  match ob_cmd o with
  | ONoOp => true
  | c => new_count_ok c (ob_nnew o) &&
         forallb (fun id => existsb (fun p => (pp_id p =? id) && good_place (ob_nnew o) (pp_where p)) (ob_pods o)) (ob_expect o)
  end.

(* nodes deleted as empty: no reschedulable pod with a positive eviction cost *)
Definition empty_ok (cs : list cand) : Prop := forall c p, List.In c cs -> List.In p (c_pods c) -> p <= 0.
Definition empty_b (cs : list cand) : bool := forallb (fun c => forallb (fun p => p <=? 0) (c_pods c)) cs.
