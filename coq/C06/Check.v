(* C06 — correspondence check and oracle, evaluated by vm_compute on what the Go harness observed on the real
   disruption code (computeConsolidation, filterOutSameInstanceType, Single/Multi/Emptiness ComputeCommands,
   validateCommand, Offerings.WorstLaunchPrice, ...). *)
From KV Require Import C06.Model C06.Spec.
Open Scope string_scope.
Open Scope list_scope.
Open Scope Z_scope.

(* ---- what the harness emits: instance types are referred to by name into a per-case catalog ---- *)
Record ccand := mkCC {
  cc_name : string; cc_pool : string; cc_it : string; cc_ct : string; cc_zone : string; cc_rid : option string;
  cc_pods : list Z;            (* EvictionCost (2^-27 units) of the reschedulable pods *)
  cc_price : Z                 (* observed Candidate.Price *)
}.
Record csim := mkCS { cs_pods : list pplace; cs_new : list (reqs * list string) }.

Definition to_cand (cat : list itype) (c : ccand) : cand :=
  mkCand (cc_name c) (cc_it c) (cc_ct c) (cc_zone c) (cc_rid c)
         (match lookup cat (cc_it c) with Some it => it_offs it | None => [] end) (cc_pods c).
Definition to_sim (cat : list itype) (s : csim) : sim :=
  mkSim (cs_pods s) (map (fun rn : reqs * list string => mkNC (fst rn) (resolve cat (snd rn))) (cs_new s)).

(* the first new NodeClaim's options in the order the implementation left them: [names] first, the rest after *)
Definition reorder (names : list string) (s : csim) : csim :=
  match cs_new s with
  | (r, ns) :: t => mkCS (cs_pods s) ((r, names ++ filter (fun n => negb (mem n names)) ns) :: t)
  | [] => s
  end.

(* ---- equality on observations ---- *)
Definition optZ_eqb (a b : option Z) : bool :=
  match a, b with Some x, Some y => x =? y | None, None => true | _, _ => false end.
Definition set_eqb (a b : list string) : bool := forallb (fun x => mem x b) a && forallb (fun x => mem x a) b.
Definition req_eqb (a b : req) : bool :=
  Bool.eqb (compl a) (compl b) && set_eqb (vals a) (vals b) && optZ_eqb (gte a) (gte b) && optZ_eqb (lte a) (lte b) &&
  optZ_eqb (minv a) (minv b).
Definition reqs_eqb (a b : reqs) : bool :=
  Nat.eqb (length a) (length b) &&
  forallb (fun kr : string * req => match find (fst kr) b with Some r => req_eqb (snd kr) r | None => false end) a.
Fixpoint strs_eqb (a b : list string) : bool :=
  match a, b with
  | [], [] => true
  | x :: a', y :: b' => String.eqb x y && strs_eqb a' b'
  | _, _ => false
  end.

Fixpoint bools_eqb (a b : list bool) : bool :=
  match a, b with
  | [], [] => true
  | x :: a', y :: b' => Bool.eqb x y && bools_eqb a' b'
  | _, _ => false
  end.

Definition dec_eqb (d : decision) (o : ocmd) : bool :=
  match d, o with
  | NoOp, ONoOp | Delete, ODelete => true
  | Replace r opts, OReplace r' names => reqs_eqb r r' && strs_eqb (map it_name opts) names
  | _, _ => false
  end.

Definition names_of (o : ocmd) : list string := match o with OReplace _ ns => ns | _ => [] end.

(* representation invariant of the emitted requirement maps (premise of the theorems) *)
Definition bound_ok_b (o : option Z) : bool := match o with Some z => in64 z | None => true end.
Definition wf_reqs_b (m : reqs) : bool :=
  forallb (fun kr : string * req => bound_ok_b (gte (snd kr)) && bound_ok_b (lte (snd kr))) m &&
  strs_eqb (dedup (map fst m)) (map fst m).

(* OrderByPrice obligations on the implementation's final list: sorted by key under the simulation's requirements, and
   nothing that truncation dropped sorts strictly before the last kept type *)
Definition order_ok (r : reqs) (final dropped : list itype) : bool :=
  sorted_by_key r final &&
  match rev final with
  | [] => true
  | lst :: _ => forallb (fun d => negb (plt (order_key r d) (order_key r lst))) dropped
  end.

(* the list computeConsolidation truncates (spot-to-spot, one candidate), for the order obligation *)
Definition pre_truncation (cands : list cand) (s : sim) : list itype :=
  match s_new s with
  | [nc] => let r' := pin_spot (nc_reqs nc) in
            remove_by_price r' (Some (sum_prices cands)) (its_compatible r' (nc_opts nc))
  | _ => []
  end.

(* ---- the oracle on one emitted command ---- *)
Definition oracle_tags (flag : bool) (cat : list itype) (cands : list ccand) (o : obs) : list string :=
  let cp := fold_right (fun c a => cc_price c + a) 0 cands in
  let cts := map cc_ct cands in
  (if cheaper_cmd_b cat cp (ob_cmd o) then [] else ["oracle:strictly_cheaper"]) ++
  (if od_cmd_b cat cp (ob_cmd o) then [] else ["oracle:od_fallback"]) ++
  (if s2s_cmd_b flag cts (ob_cmd o) then [] else ["oracle:spot_to_spot"]) ++
  (if home_b o then [] else ["oracle:pods_have_home"]).

Definition compute_tags (flag : bool) (cat : list itype) (cands : list ccand) (s : csim) (o : obs) : list string :=
  let names := names_of (ob_cmd o) in
  let s' := reorder names s in
  let mc := map (to_cand cat) cands in
  let ms := to_sim cat s' in
  let sim_names := match cs_new s with (_, ns) :: _ => ns | [] => [] end in
  let r0 := match cs_new s with (r, _) :: _ => r | [] => [] end in
  (if forallb (fun c => cand_price (to_cand cat c) =? cc_price c) cands then [] else ["corr:candidate_price"]) ++
  (if forallb (fun rn : reqs * list string => Nat.eqb (length (resolve cat (snd rn))) (length (snd rn)) && wf_reqs_b (fst rn)) (cs_new s)
   then [] else ["corr:case_wellformed"]) ++
  (if forallb (fun n => mem n sim_names) names then [] else ["corr:replacement_subset_of_simulation"]) ++
  (if dec_eqb (compute flag mc ms) (ob_cmd o) then [] else ["corr:compute_consolidation"]) ++
  (let s2s_single := Nat.eqb (length cands) 1 && forallb (fun c => String.eqb (cc_ct c) ct_spot) cands && has (get r0 ct_key) ct_spot in
   if order_ok r0 (resolve cat names)
        (if s2s_single then filter (fun it => negb (mem (it_name it) names)) (pre_truncation mc ms) else [])
   then [] else ["corr:order_by_price"]) ++
  match ob_cmd o with ONoOp => [] | _ => oracle_tags flag cat cands o end.

(* ---- cases ---- *)
(* one call of computeConsolidation: the candidates, the harness's simulation for them, the command returned *)
Record wcompute := mkWC { wc_cands : list ccand; wc_sim : csim; wc_obs : obs }.

Inductive case :=
| CaseConst (keys : list string)                   (* ct key, zone key, reservation-id key, reserved, spot, on-demand *)
            (well_known : list bool)               (* the three keys are in v1.WellKnownLabels *)
            (min_s2s : Z)
| CaseWLP (r : reqs) (offs : list offering) (wlp : price) (okey : price) (compat : list bool) (ncompat_its : bool)
| CaseEvict (deletion_cost priority : Z) (cost : Z)
| CaseOrder (r : reqs) (cat : list itype) (sorted : list string)
(* everything observed in one generated world shares the catalog *)
| CaseWorld (flag : bool) (cat : list itype)
            (balanced : bool)                      (* some candidate's NodePool is Balanced: the evaluator may reject (relational) *)
            (budget : list (string * Z))           (* disruptionBudgetMapping handed to ComputeCommands *)
            (computes : list wcompute)
            (single : option (list (string * string) * option (string * obs)))   (* candidates (name, pool) given; the command *)
            (multi : option (list (string * string) * option (nat * obs)))       (* candidates in the method's order; the command *)
            (filters : list (list ccand * reqs * list string * option (list string)))   (* filterOutSameInstanceType *)
| CaseEmpty (budget : list (string * Z)) (cands : list ccand) (selected : list string)   (* candidates in the method's order *)
(* who is a candidate: every disruptable node with what ShouldDisrupt reads, and the names each method kept *)
| CaseShould (nodes : list (string * cstate * list Z)) (consolidation emptiness : list string)
(* computeConsolidation on a candidate that was marked for deletion after the candidates were built *)
| CaseDeleting (o : ocmd)
| CaseValidate (nrepl : nat) (repl : list string) (cat : list itype) (s : csim) (valid : bool)
(* the real Validate after the TTL, the world having moved on; everything is observed at validation time *)
| CaseValidated (nrepl : nat) (repl : list string) (cat : list itype)
                (present nominated budget_ok : bool)      (* all proposed candidates are candidates now / one is nominated / budgets allow *)
                (s : csim)                                 (* the harness's simulation over the CURRENT candidates *)
                (expect : list Z)                          (* reschedulable pods bound to the candidate nodes NOW (from the API) *)
                (accepted : bool)
| CaseEmptyValidated (proposed : list string) (budget_ok : bool) (current : list (ccand * bool)) (out : option (list string)).

Definition price_eqb (a b : price) : bool := optZ_eqb a b.

Definition find_wc (names : list string) (l : list wcompute) : option wcompute :=
  List.find (fun w => strs_eqb (map cc_name (wc_cands w)) names) l.
Definition empty_sim : csim := mkCS [] [].

Definition tag_at (i : nat) (t : string) : string := t ++ "#" ++ itoa (Z.of_nat i).
Fixpoint indexed {A} (i : nat) (l : list A) : list (nat * A) :=
  match l with [] => [] | x :: t => (i, x) :: indexed (S i) t end.

Definition single_tags (flag balanced : bool) (cat : list itype) (computes : list wcompute)
                       (tried : list string) (out : option (string * obs)) : list string :=
  let entries := map (fun n => find_wc [n] computes) tried in
  if negb (forallb (fun e : option wcompute => match e with Some _ => true | None => false end) entries)
  then ["corr:case_wellformed"] else
  match out with
  | None =>
      if forallb (fun e : option wcompute =>
           match e with
           | Some w => match compute flag (map (to_cand cat) (wc_cands w)) (to_sim cat (wc_sim w)) with NoOp => true | _ => false end
           | None => false
           end) entries
         || balanced
      then [] else ["corr:single_node"]
  | Some (name, o) =>
      match find_wc [name] computes with
      | None => ["corr:single_node"]
      | Some w =>
          (if mem name tried then [] else ["corr:single_node"]) ++
          (match ob_cmd o with ONoOp => ["corr:single_node"] | _ => [] end) ++
          compute_tags flag cat (wc_cands w) (wc_sim w) o
      end
  end.

Definition multi_tags (flag balanced : bool) (cat : list itype) (computes : list wcompute)
                      (order : list string) (out : option (nat * obs)) : list string :=
  match order with [] | [_] => (match out with None => [] | Some _ => ["corr:multi_node"] end) | _ =>
  match find_wc order computes with
  | None => ["corr:case_wellformed"]
  | Some full =>
    let cands := wc_cands full in
    let mc := map (to_cand cat) cands in
    let sim_at := fun k => match find_wc (firstn k order) computes with Some w => wc_sim w | None => empty_sim end in
    if negb (forallb (fun k => match find_wc (firstn k order) computes with Some _ => true | None => false end)
                     (seq 2 (length order - 1)))
    then ["corr:case_wellformed"] else
    match out with
    | None =>
        match first_n flag mc (fun k => to_sim cat (sim_at k)) with
        | None => []
        | Some _ => if balanced then [] else ["corr:multi_node"]
        end
    | Some (k, o) =>
        let names := names_of (ob_cmd o) in
        let r0 := match cs_new (sim_at k) with (r, _) :: _ => r | [] => [] end in
        let simf := fun j => to_sim cat (if Nat.eqb j k then reorder names (sim_at j) else sim_at j) in
        (if balanced
         then match multi_probe flag (firstn k mc) (simf k) with
              | Some d => if dec_eqb d (ob_cmd o) then [] else ["corr:multi_node"]
              | None => ["corr:multi_node"]
              end
         else match first_n flag mc simf with
              | Some (k', d) => if Nat.eqb k k' && dec_eqb d (ob_cmd o) then [] else ["corr:multi_node"]
              | None => ["corr:multi_node"]
              end) ++
        (if sorted_by_key r0 (resolve cat names) then [] else ["corr:order_by_price"]) ++
        match ob_cmd o with ONoOp => ["corr:multi_node"] | _ => oracle_tags flag cat (firstn k cands) o end
    end
  end end.

Definition filter_tags (cat : list itype) (f : list ccand * reqs * list string * option (list string)) : list string :=
  let '(cands, r, opts, out) := f in
  let '(l, ok) := filter_out_same_type r (resolve cat opts) (map (to_cand cat) cands) in
  (if wf_reqs_b r && Nat.eqb (length (resolve cat opts)) (length opts) then [] else ["corr:case_wellformed"]) ++
  match out with
  | None => if ok then ["corr:filter_out_same_type"] else []
  | Some names => if ok && strs_eqb (map it_name l) names then [] else ["corr:filter_out_same_type"]
  end.

Definition check_case (c : case) : list string :=
  match c with
  | CaseConst keys wk m =>
      if strs_eqb keys [ct_key; zone_key; rid_key; ct_reserved; ct_spot; ct_od] && forallb (fun b => b) wk &&
         Nat.eqb (length wk) 3 && (m =? Z.of_nat min_spot_to_spot)
      then [] else ["corr:constants"]
  | CaseWLP r offs w k compat ci =>
      (if wf_reqs_b r then [] else ["corr:case_wellformed"]) ++
      (if price_eqb (worst_launch_price r offs) w then [] else ["corr:worst_launch_price"]) ++
      (if price_eqb (order_key r (mkIT "x" offs [])) k then [] else ["corr:order_key"]) ++
      (if bools_eqb (map (off_compat r) offs) compat then [] else ["corr:offering_compatible"]) ++
      (if Bool.eqb (match its_compatible r [mkIT "x" offs []] with [] => false | _ => true end) ci then [] else ["corr:instance_types_compatible"])
  | CaseEvict d p cost => if eviction_cost d p =? cost then [] else ["corr:eviction_cost"]
  | CaseOrder r cat sorted =>
      if wf_reqs_b r && set_eqb (map it_name cat) sorted && Nat.eqb (length cat) (length sorted) && sorted_by_key r (resolve cat sorted)
      then [] else ["corr:order_by_price"]
  | CaseWorld flag cat balanced budget computes single multi filters =>
      flat_map (fun iw : nat * wcompute =>
                  map (tag_at (fst iw)) (compute_tags flag cat (wc_cands (snd iw)) (wc_sim (snd iw)) (wc_obs (snd iw))))
               (indexed 0 computes) ++
      (match single with Some (given, out) => single_tags flag balanced cat computes (single_budget budget given) out | None => [] end) ++
      (match multi with Some (order, out) => multi_tags flag balanced cat computes (multi_budget budget order) out | None => [] end) ++
      flat_map (fun jf : nat * (list ccand * reqs * list string * option (list string)) =>
                  map (tag_at (fst jf)) (filter_tags cat (snd jf))) (indexed 0 filters)
  | CaseEmpty budget cands selected =>
      let mc := map (to_cand []) cands in
      let empties := filter (fun c => is_empty (to_cand [] c)) cands in
      (if set_eqb (multi_budget budget (map (fun c => (cc_name c, cc_pool c)) empties)) selected &&
          forallb (fun n => mem n (map c_name (emptiness mc))) selected then [] else ["corr:emptiness"]) ++
      (* Emptiness runs no simulation by design: its oracle is the emptiness rule only (property text, last sentence) *)
      (if empty_b (filter (fun c => mem (c_name c) selected) mc) then [] else ["oracle:empty_means_no_positive_cost"])
  | CaseValidate nrepl repl cat s valid =>
      if Bool.eqb (validate_command nrepl repl (to_sim cat s)) valid then [] else ["corr:validate_command"]
  | CaseValidated nrepl repl cat present nominated budget_ok s expect accepted =>
      (if Bool.eqb (validate present nominated budget_ok nrepl repl (to_sim cat s)) accepted then [] else ["corr:validate"]) ++
      (if negb accepted ||
          home_b (mkObs (if Nat.eqb nrepl 0 then ODelete else OReplace [] repl) (cs_pods s) (length (cs_new s)) expect)
       then [] else ["oracle:pods_have_home"])
  | CaseShould nodes consl empt =>
      let keep (f : cstate -> bool -> bool) :=
        map (fun n : string * cstate * list Z => fst (fst n))
            (filter (fun n : string * cstate * list Z =>
                       f (snd (fst n)) (is_empty (mkCand (fst (fst n)) "" "" "" None [] (snd n)))) nodes) in
      (if set_eqb (keep should_disrupt_consolidation) consl then [] else ["corr:should_disrupt_consolidation"]) ++
      (if set_eqb (keep should_disrupt_emptiness) empt then [] else ["corr:should_disrupt_emptiness"])
  | CaseDeleting o => match o with ONoOp => [] | _ => ["corr:candidate_deleting"; "oracle:pods_have_home"] end
  | CaseEmptyValidated proposed budget_ok current out =>
      let cur := map (fun cn : ccand * bool => (to_cand [] (fst cn), snd cn)) current in
      (match (if budget_ok then validate_empty proposed cur else None), out with
       | None, None => []
       | Some a, Some b => if set_eqb a b then [] else ["corr:validate_empty"]
       | _, _ => ["corr:validate_empty"]
       end) ++
      (match out with
       | Some names => if empty_b (filter (fun c => mem (c_name c) names) (map fst cur)) && forallb (fun n => mem n (map (fun cn => c_name (fst cn)) cur)) names
                       then [] else ["oracle:empty_means_no_positive_cost"]
       | None => []
       end)
  end.

Definition check_all (cs : list (Z * case)) : list (Z * string) :=
  flat_map (fun ic => map (fun t => (fst ic, t)) (check_case (snd ic))) cs.
