(* C15 — correspondence check and oracles, evaluated by vm_compute on what the Go harness observed on the
   real NodePool.Hash(), hash controller and drift sub-reconciler. *)
From KV Require Import C15.Model gen.C15_fields.
Open Scope string_scope.

(* what the property demands of a pair of templates, by construction of the pair (the mutation applied) *)
Inductive expectation :=
| Same        (* b = a up to reordering of lists/maps and edits of documented non-drifting fields *)
| Differ      (* some other template field changed *)
| DontCare.   (* only zero <-> nil representation changes *)

Definition pair_holds (e : expectation) (hash_eq : bool) : Prop :=
  match e with Same => hash_eq = true | Differ => hash_eq = false | DontCare => True end.
Definition pair_holds_b (e : expectation) (hash_eq : bool) : bool :=
  match e with Same => hash_eq | Differ => negb hash_eq | DontCare => true end.

Inductive case :=
| CasePair (a b : gv) (e : expectation) (hash_eq : bool).

Definition tag (ok : bool) (t : string) : list string := if ok then [] else [t].

Definition check_case (c : case) : list string :=
  match c with
  | CasePair a b e hash_eq =>
      tag (conforms struct_table a && conforms struct_table b) "corr:field-table"
      ++ tag (Bool.eqb (same_hash struct_table a b) hash_eq) "corr:hash-equality"
      ++ tag (pair_holds_b e hash_eq) "oracle:hash-pair"
  end.

Definition check_all (cs : list (Z * case)) : list (Z * string) :=
  flat_map (fun ic => map (fun t => (fst ic, t)) (check_case (snd ic))) cs.
