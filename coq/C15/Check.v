(* C15 — correspondence check and oracles, evaluated by vm_compute on what the Go harness observed on the
   real NodePool.Hash(), hash controller and drift sub-reconciler. *)
From KV Require Import C15.Model C15.DriftModel gen.C15_fields.
Open Scope string_scope.
Open Scope list_scope.

(* what the property demands of a pair of templates, by construction of the pair (the mutation applied) *)
Inductive expectation :=
| Same        (* b = a up to reordering of lists/maps and edits of documented non-drifting fields *)
| Differ      (* some other template field changed *)
| DontCare.   (* only zero <-> nil representation changes *)

Definition pair_holds (e : expectation) (hash_eq : bool) : Prop :=
  match e with Same => hash_eq = true | Differ => hash_eq = false | DontCare => True end.
Definition pair_holds_b (e : expectation) (hash_eq : bool) : bool :=
  match e with Same => hash_eq | Differ => negb hash_eq | DontCare => true end.

Inductive case :=
| CasePair (a b : gv) (e : expectation) (hash_eq : bool)
(* one reconcile of the real hash controller: np.Hash(), annotations of the pool and of its claims before / after *)
| CaseHashCtl (managed : bool) (fault : hfault) (h : string) (pool_before : option string * option string) (claims_before : list cl_ann)
              (pool_after : option string * option string) (claims_after : list cl_ann)
              (foreign_before foreign_after : list cl_ann)      (* claims of another pool *)
(* one NodePool through template construction, ToNodeClaim, launch, and a sequence of drift reconciles.
   [built_from] = Hash() of the pool object NewNodeClaimTemplate was given (after any edits, whatever the hash
   controller had stamped by then); [stamp] = the hash / hash-version annotations the new claim carries *)
| CaseSys (built_from : string) (stamp : option string * option string) (validated : bool) (noresolve : list string) (p : pool) (pod : list (string * call))
          (claim_l provider_l final_l : labels) (steps : list (bool * bool * bool * dinput * option string))
          (* per step: controller active, status patch succeeds, claim is fresh; input; observed Drifted reason *)
| CaseNote.

(* monomorphic list builders: the generated case files contain no implicit arguments to infer *)
Definition vnil : list gv := nil.
Definition vcons (x : gv) (t : list gv) : list gv := x :: t.
Definition mnil : list (gv * gv) := nil.
Definition mcons (k v : gv) (t : list (gv * gv)) : list (gv * gv) := (k, v) :: t.
Definition fnil : list (string * gv) := nil.
Definition fcons (n : string) (v : gv) (t : list (string * gv)) : list (string * gv) := (n, v) :: t.
Definition snil : list string := nil.
Definition scons (x : string) (t : list string) : list string := x :: t.
Definition lnil : list (string * string) := nil.
Definition lcons (k v : string) (t : list (string * string)) : list (string * string) := (k, v) :: t.

Definition nomv : option Z := None.
Definition nostr : option string := None.
Definition sostr (s : string) : option string := Some s.
Definition nocat : option catalog := None.
Definition cnil : list (string * call) := nil.
Definition ccons (k : string) (o : oper) (mv : option Z) (vs : list string) (t : list (string * call)) : list (string * call) :=
  (k, (o, mv, vs)) :: t.
Definition onil : list offering := nil.
Definition ocons (z ct : string) (rid : option string) (t : list offering) : list offering := mkOff z ct rid :: t.
Definition itnil : catalog := nil.
Definition itcons (n : string) (offs : list offering) (t : catalog) : catalog := (n, offs) :: t.

Definition ann_eqb (a b : cl_ann) : bool :=
  opt_str_eqb (a_hash a) (a_hash b) && opt_str_eqb (a_ver a) (a_ver b) && Bool.eqb (a_drifted a) (a_drifted b).
Fixpoint anns_eqb (a b : list cl_ann) : bool :=
  match a, b with
  | [], [] => true
  | x :: a', y :: b' => ann_eqb x y && anns_eqb a' b'
  | _, _ => false
  end.

Fixpoint drifted_kept (h : string) (before after : list cl_ann) : bool :=
  match before, after with
  | b :: before', a :: after' =>
      (negb (a_drifted b) || opt_str_eqb (a_hash b) (Some h) || negb (opt_str_eqb (a_hash a) (Some h)))
      && drifted_kept h before' after'
  | _, _ => true
  end.

(* the drift steps of one claim: the instance-type cache and the previous condition are threaded; after each
   step the model continues from what the implementation did *)
Fixpoint check_steps (cached : bool) (prev : option string)
         (steps : list (bool * bool * bool * dinput * option string)) : list string :=
  match steps with
  | [] => []
  | (active, patch_ok, fresh, d0, obs) :: rest =>
      let d := with_cached d0 cached in
      (if opt_str_eqb (controller_reconcile active patch_ok d prev) obs then [] else ["corr:drift-reconcile"])
      ++ (if active && patch_ok then step_oracle_b fresh d obs else [])
      ++ check_steps (if active then cache_after d else cached) obs rest
  end.

Definition stamp_ok (ver built_from : string) (stamp : option string * option string) : bool :=
  let m := build_stamp ver (mkPS built_from (None, None)) in
  opt_str_eqb (fst stamp) (fst m) && opt_str_eqb (snd stamp) (snd m).

Definition tag (ok : bool) (t : string) : list string := if ok then [] else [t].

Definition check_case (c : case) : list string :=
  match c with
  | CasePair a b e hash_eq =>
      tag (conforms struct_table a && conforms struct_table b) "corr:field-table"
      ++ tag (Bool.eqb (same_hash struct_table a b) hash_eq) "corr:hash-equality"
      ++ tag (pair_holds_b e hash_eq) "oracle:hash-pair"
  | CaseHashCtl managed fault h pb cb pa ca fb fa =>
      let '(pa', ca') := hash_controller managed fault hash_version h pb cb in
      tag (opt_str_eqb (fst pa') (fst pa) && opt_str_eqb (snd pa') (snd pa)) "corr:hash-controller-pool"
      ++ tag (anns_eqb ca' ca) "corr:hash-controller-claims"
      ++ tag (anns_eqb fb fa) "corr:hash-controller-foreign-claims"
      (* oracle: without faults a managed pool ends with the current hash under the current version *)
      ++ (match fault with
          | HNoFault => tag (negb managed || (opt_str_eqb (fst pa) (Some h) && opt_str_eqb (snd pa) (Some hash_version))) "oracle:pool-annotated"
          | _ => []
          end)
      (* oracle: a claim that already carries Drifted stays drifted across a hash-version migration: its hash
         annotation is not re-stamped with the pool's new hash *)
      ++ tag (drifted_kept h cb ca) "oracle:drifted-claim-restamped"
  | CaseSys built_from stamp validated noresolve p pod claim_l provider_l final_l steps =>
      (* template-fields oracle: the claim's hash annotation is the hash of the template it was built from *)
      tag (stamp_ok hash_version built_from stamp) "oracle:claim-hash-is-not-the-hash-of-its-template"
      ++ tag (claim_labels_allowed noresolve p pod claim_l) "corr:claim-labels"
      ++ tag (labels_eqb (populate claim_l provider_l) final_l) "corr:populate"
      ++ check_steps false None (map (fun st => let '(a, pk, fr, d, o) := st in (a, pk, fr && validated, d, o)) steps)
  | CaseNote => []
  end.

Definition check_all (cs : list (Z * case)) : list (Z * string) :=
  flat_map (fun ic => map (fun t => (fst ic, t)) (check_case (snd ic))) cs.
