(* C15 — correspondence check and oracles, evaluated by vm_compute on what the Go harness observed on the
   real NodePool.Hash(), hash controller and drift sub-reconciler. *)
From KV Require Import C15.Model gen.C15_fields.
Open Scope string_scope.

(* what the property demands of a pair of templates, by construction of the pair (the mutation applied) *)
Inductive expectation :=
| Same        (* b = a up to reordering of lists/maps and edits of documented non-drifting fields *)
| Differ      (* some other template field changed *)
| DontCare.   (* only zero <-> nil representation changes *)

Definition pair_holds (e : expectation) (hash_eq : bool) : Prop :=
  match e with Same => hash_eq = true | Differ => hash_eq = false | DontCare => True end.
Definition pair_holds_b (e : expectation) (hash_eq : bool) : bool :=
  match e with Same => hash_eq | Differ => negb hash_eq | DontCare => true end.

Inductive case :=
| CasePair (a b : gv) (e : expectation) (hash_eq : bool).

(* monomorphic list builders: the generated case files contain no implicit arguments to infer *)
Definition vnil : list gv := nil.
Definition vcons (x : gv) (t : list gv) : list gv := x :: t.
Definition mnil : list (gv * gv) := nil.
Definition mcons (k v : gv) (t : list (gv * gv)) : list (gv * gv) := (k, v) :: t.
Definition fnil : list (string * gv) := nil.
Definition fcons (n : string) (v : gv) (t : list (string * gv)) : list (string * gv) := (n, v) :: t.
Definition snil : list string := nil.
Definition scons (x : string) (t : list string) : list string := x :: t.
Definition lnil : list (string * string) := nil.
Definition lcons (k v : string) (t : list (string * string)) : list (string * string) := (k, v) :: t.

Definition tag (ok : bool) (t : string) : list string := if ok then [] else [t].

Definition check_case (c : case) : list string :=
  match c with
  | CasePair a b e hash_eq =>
      tag (conforms struct_table a && conforms struct_table b) "corr:field-table"
      ++ tag (Bool.eqb (same_hash struct_table a b) hash_eq) "corr:hash-equality"
      ++ tag (pair_holds_b e hash_eq) "oracle:hash-pair"
  end.

Definition check_all (cs : list (Z * case)) : list (Z * string) :=
  flat_map (fun ic => map (fun t => (fst ic, t)) (check_case (snd ic))) cs.
