(* C15 — model of the drift decision and of the label pipeline that produces a launched NodeClaim:
   scheduling.NewNodeClaimTemplate / NodeClaimTemplate.ToNodeClaim (labels only; the serialisation of
   requirements is C13), lifecycle.PopulateNodeClaimDetails, the nodepool hash controller
   (controllers/nodepool/hash) and the drift sub-reconciler (controllers/nodeclaim/disruption/drift.go).
   The requirement algebra is the shared model Base/Req.v; Requirement.Any is C13's relational model.
   Executable definitions only. *)
From KV Require Export Base.Req Base.K8s C13.Model C12.Check.
Open Scope Z_scope.
Open Scope string_scope.
Open Scope list_scope.

(* ---------------------------------------------------------------- label maps as association lists *)
Definition labels := list (string * string).

Fixpoint lookup (k : string) (l : labels) : option string :=
  match l with
  | [] => None
  | (k', v) :: t => if String.eqb k k' then Some v else lookup k t
  end.

(* lo.Assign(a, b): b's entries win *)
Definition assign (a b : labels) : labels :=
  b ++ filter (fun kv => match lookup (fst kv) b with Some _ => false | None => true end) a.

Definition opt_str_eqb (a b : option string) : bool :=
  match a, b with
  | Some x, Some y => String.eqb x y
  | None, None => true
  | _, _ => false
  end.

(* equality of maps *)
Definition labels_eqb (a b : labels) : bool :=
  forallb (fun kv => opt_str_eqb (lookup (fst kv) a) (lookup (fst kv) b)) (a ++ b).

(* scheduling.NewLabelRequirements: key In [value] per label (no normalised keys in the modelled universe) *)
Definition label_calls (l : labels) : list (string * call) :=
  map (fun kv => (fst kv, (In, None, [snd kv]))) l.
Definition reqs_of (l : list (string * call)) : reqs := build_reqs [] [] l.
Definition label_reqs (l : labels) : reqs := reqs_of (label_calls l).

(* ---------------------------------------------------------------- NewNodeClaimTemplate / ToNodeClaim (labels) *)
Record pool := mkPool {
  p_name : string;
  p_class : string * string;          (* v1.NodeClassLabelKey(groupkind), nodeClassRef.name *)
  p_labels : labels;                  (* spec.template.metadata.labels *)
  p_reqs : list (string * call)       (* spec.template.spec.requirements, in order *)
}.

Definition nodepool_key := "karpenter.sh/nodepool".
Definition sim_calls : list (string * call) :=
  [("karpenter.sh/registered", (In, None, ["true"])); ("karpenter.sh/initialized", (In, None, ["true"]))].

(* nct.Labels after NewNodeClaimTemplate *)
Definition tmpl_labels (p : pool) : labels := assign (p_labels p) [(nodepool_key, p_name p); p_class p].

(* nct.Requirements after NewNodeClaimTemplate and after the scheduler added the pods' requirements *)
Definition nct_reqs (p : pool) (pod : list (string * call)) : reqs :=
  reqs_of (p_reqs p ++ label_calls (tmpl_labels p) ++ sim_calls ++ pod).

(* resolveCustomLabelsFromRequirements + lo.Assign(i.Labels, resolved): is the observed label map one the code
   can produce? [noresolve] = keys in WellKnownLabels, RestrictedLabels or schedulingSimulationKeys. *)
Definition claim_labels_allowed (noresolve : list string) (p : pool) (pod : list (string * call)) (obs : labels) : bool :=
  let rs := nct_reqs p pod in
  let tl := tmpl_labels p in
  (* every resolvable key: the label is Any()'s result, or the template's when Any() returned "" *)
  forallb (fun kr : string * req =>
             let (k, r) := kr in
             if mem k noresolve then opt_str_eqb (lookup k obs) (lookup k tl)
             else match lookup k obs with
                  | Some v => (negb (String.eqb v "") && any_allows r (Some v))
                              || (opt_str_eqb (Some v) (lookup k tl) && any_allows r (Some ""))
                  | None => opt_str_eqb None (lookup k tl) && any_allows r (Some "")
                  end) rs
  (* nothing else appears, nothing of the template disappears *)
  && forallb (fun kv => has_key rs (fst kv) || opt_str_eqb (Some (snd kv)) (lookup (fst kv) tl)) obs
  && forallb (fun kv => has_key rs (fst kv) || opt_str_eqb (Some (snd kv)) (lookup (fst kv) obs)) tl.

(* lifecycle.PopulateNodeClaimDetails: lo.Assign(retrieved.Labels, nodeClaim.Labels) *)
Definition populate (claim provider : labels) : labels := assign provider claim.

(* ---------------------------------------------------------------- nodepool hash controller *)
Record cl_ann := mkAnn { a_hash : option string; a_ver : option string; a_drifted : bool }.  (* one NodeClaim *)

Definition hash_reconcile (current_version h : string) (pool_ann : option string * option string) (claims : list cl_ann)
  : (option string * option string) * list cl_ann :=
  let migrate := negb (opt_str_eqb (snd pool_ann) (Some current_version)) in
  ((Some h, Some current_version),
   if migrate then
     map (fun c => if opt_str_eqb (a_ver c) (Some current_version) then c
                   else mkAnn (if a_drifted c then a_hash c else Some h) (Some current_version) (a_drifted c)) claims
   else claims).

(* the controller around it: unmanaged pools are left alone; API faults. updateNodeClaimHash runs first and only when
   the pool's version is not current; an error there (List fails, or a NodeClaim Patch fails) returns before the pool
   is stamped; a failing NodePool Patch leaves the claims migrated and the pool as it was. *)
Inductive hfault := HNoFault | HListFails | HClaimPatchFails | HPoolPatchFails.

Definition hash_controller (managed : bool) (f : hfault) (current_version h : string)
    (pool_ann : option string * option string) (claims : list cl_ann) : (option string * option string) * list cl_ann :=
  if negb managed then (pool_ann, claims)
  else
    let migrate := negb (opt_str_eqb (snd pool_ann) (Some current_version)) in
    let '(pa', cs') := hash_reconcile current_version h pool_ann claims in
    let claim_patched := existsb (fun c => negb (opt_str_eqb (a_ver c) (Some current_version))) claims in
    match f with
    | HNoFault => (pa', cs')
    | HListFails => if migrate then (pool_ann, claims) else (pa', cs')
    | HClaimPatchFails => if migrate && claim_patched then (pool_ann, claims) else (pa', cs')
    | HPoolPatchFails => (pool_ann, cs')
    end.

(* the order of operations on one pool before a claim is built: template edits (the hash of the edited template is
   [h]) and hash-controller reconciles, in any interleaving (the controllers keep nothing in memory that outlives an object). NewNodeClaimTemplate reads the pool OBJECT: the claim is
   stamped with Hash() of the template it is built from and the current version, never with the controller's stamp. *)
Inductive pool_op :=
| PEdit (h : string)        (* the template is edited; its hash is now h *)
| PRecreate (h : string)    (* the pool is deleted and created again under the same name: template hash h, no annotations *)
| PBuild                    (* a template / claim is built from the pool object: read-only *)
| PHashCtl.
Record pool_state := mkPS { ps_template_hash : string; ps_ann : option string * option string }.
Definition pool_step (ver : string) (s : pool_state) (o : pool_op) : pool_state :=
  match o with
  | PEdit h => mkPS h (ps_ann s)
  | PRecreate h => mkPS h (None, None)
  | PBuild => s
  | PHashCtl => mkPS (ps_template_hash s) (fst (hash_reconcile ver (ps_template_hash s) (ps_ann s) []))
  end.
Definition build_stamp (ver : string) (s : pool_state) : option string * option string :=
  (Some (ps_template_hash s), Some ver).

(* ---------------------------------------------------------------- drift *)
(* areStaticFieldsDrifted *)
Definition static_drifted (np_h np_v nc_h nc_v : option string) : bool :=
  match np_h, np_v, nc_h, nc_v with
  | Some a, Some va, Some b, Some vb => String.eqb va vb && negb (String.eqb a b)
  | _, _, _, _ => false
  end.

(* areRequirementsDrifted: nodeClaimReq.Compatible(nodepoolReq) != nil, no undefined keys allowed *)
Definition requirements_drifted (pool_reqs : list (string * call)) (l : labels) : bool :=
  negb (compatible [] (label_reqs l) (reqs_of pool_reqs)).

(* instanceTypeNotFound *)
Record offering := mkOff { o_zone : string; o_ct : string; o_rid : option string }.
Definition catalog := list (string * list offering).

Definition zone_key := "topology.kubernetes.io/zone".
Definition ct_key := "karpenter.sh/capacity-type".
Definition it_key := "node.kubernetes.io/instance-type".

Definition offering_calls (rid_key : string) (o : offering) : list (string * call) :=
  [(ct_key, (In, None, [o_ct o])); (zone_key, (In, None, [o_zone o]))]
  ++ match o_rid o with Some id => [(rid_key, (In, None, [id]))] | None => [] end.

Fixpoint find_it (n : string) (c : catalog) : option (list offering) :=
  match c with
  | [] => None
  | (n', offs) :: t => if String.eqb n n' then Some offs else find_it n t
  end.

(* wk = v1.WellKnownLabels (AllowUndefinedWellKnownLabels); reserved_keys = cloudprovider.ReservedCapacityLabels *)
Definition it_not_found (wk reserved_keys : list string) (rid_key : string) (c : catalog) (l : labels) : bool :=
  match find_it (match lookup it_key l with Some n => n | None => "" end) c with
  | None => true
  | Some offs =>
      let l' :=
        if opt_str_eqb (lookup ct_key l) (Some "reserved")
        then filter (fun kv => negb (mem (fst kv) reserved_keys) && negb (String.eqb (fst kv) ct_key)) l
        else l in
      let lr := label_reqs l' in
      let lr := if opt_str_eqb (lookup ct_key l) (Some "reserved")
                then add lr [(ct_key, new_req In None ["reserved"; "on-demand"])] else lr in
      negb (existsb (fun o => compatible wk lr (reqs_of (offering_calls rid_key o))) offs)
  end.

Inductive provider_answer := PErr | PReason (r : string).

Record dinput := mkD {
  d_launched : bool;
  d_np_hash : option string; d_np_ver : option string;
  d_nc_hash : option string; d_nc_ver : option string;
  d_pool_reqs : list (string * call);
  d_labels : labels;
  d_age : Z;                       (* clock.Since(creationTimestamp) in seconds *)
  d_cached : bool;                 (* instanceTypeNotFoundCheckCache has the claim *)
  d_wk : list string; d_reserved_keys : list string; d_rid_key : string;
  d_catalog : option catalog;      (* None = GetInstanceTypes fails *)
  d_provider : provider_answer     (* cloudProvider.IsDrifted *)
}.

Inductive dres := DNone | DReason (r : string) | DError.

(* Drift.isDrifted *)
Definition is_drifted (d : dinput) : dres :=
  if static_drifted (d_np_hash d) (d_np_ver d) (d_nc_hash d) (d_nc_ver d) then DReason "NodePoolDrifted"
  else if requirements_drifted (d_pool_reqs d) (d_labels d) then DReason "RequirementsDrifted"
  else
    let check := negb (d_cached d) && (Z.ltb 3600 (d_age d)) in
    let provider_step :=
      match d_provider d with
      | PErr => DError
      | PReason r => if String.eqb r "" then DNone else DReason r
      end in
    if check then
      match d_catalog d with
      | None => DError
      | Some c =>
          if it_not_found (d_wk d) (d_reserved_keys d) (d_rid_key d) c (d_labels d) then DReason "InstanceTypeNotFound"
          else provider_step
      end
    else provider_step.

(* Drift.Reconcile: the Drifted condition (its reason) afterwards, given the one before *)
Definition drift_reconcile (d : dinput) (prev : option string) : option string :=
  if negb (d_launched d) then None
  else match is_drifted d with
       | DError => prev
       | DNone => None
       | DReason r => Some r
       end.

(* disruption.Controller.Reconcile around it: nothing happens for a claim that is unmanaged, being deleted, without
   nodepool label, or whose pool is gone ([active] = none of these); a failed status patch leaves the stored
   condition as it was *)
Definition controller_reconcile (active patch_ok : bool) (d : dinput) (prev : option string) : option string :=
  if active && patch_ok then drift_reconcile d prev else prev.

(* instanceTypeNotFoundCheckCache.SetDefault is reached iff the check ran and found the type and an offering *)
Definition cache_after (d : dinput) : bool :=
  d_cached d
  || (d_launched d
      && negb (static_drifted (d_np_hash d) (d_np_ver d) (d_nc_hash d) (d_nc_ver d))
      && negb (requirements_drifted (d_pool_reqs d) (d_labels d))
      && negb (d_cached d) && (Z.ltb 3600 (d_age d))
      && match d_catalog d with
         | Some c => negb (it_not_found (d_wk d) (d_reserved_keys d) (d_rid_key d) c (d_labels d))
         | None => false
         end).

Definition with_cached (d : dinput) (c : bool) : dinput :=
  mkD (d_launched d) (d_np_hash d) (d_np_ver d) (d_nc_hash d) (d_nc_ver d) (d_pool_reqs d) (d_labels d) (d_age d) c
      (d_wk d) (d_reserved_keys d) (d_rid_key d) (d_catalog d) (d_provider d).

(* ---------------------------------------------------------------- specification side (Kubernetes semantics) *)
(* the node's labels satisfy every NodeSelectorRequirement of the pool *)
Definition labels_satisfy (pool_reqs : list (string * call)) (l : labels) : bool :=
  forallb (fun kc : string * call => let '(k, (o, _, vs)) := kc in k8s_match o vs (lookup k l)) pool_reqs.

Definition calls_valid (cs : list (string * call)) : bool :=
  forallb (fun kc : string * call => let '(_, (o, _, vs)) := kc in valid_args o vs) cs.

(* the hash annotations say: same hash version, different hash *)
Definition hash_differs (d : dinput) : bool :=
  match d_np_hash d, d_np_ver d, d_nc_hash d, d_nc_ver d with
  | Some a, Some va, Some b, Some vb => String.eqb va vb && negb (String.eqb a b)
  | _, _, _, _ => false
  end.

Definition is_some (o : option string) : bool := match o with Some _ => true | None => false end.

(* the property's oracle for one reconcile of a launched claim, evaluated on the implementation's observation
   [obs] (the reason of the Drifted condition afterwards):
   - a fresh claim of a validated pool is not drifted;
   - a differing hash under the same hash version is reported;
   - labels that do not satisfy the pool's requirements (Kubernetes semantics) are reported;
   - NodePoolDrifted / RequirementsDrifted are reported only for those causes. *)
Definition step_oracle_b (fresh : bool) (d : dinput) (obs : option string) : list string :=
  let sat := labels_satisfy (d_pool_reqs d) (d_labels d) in
  (if fresh && is_some obs then ["oracle:self-drift"] else [])
  ++ (if d_launched d && hash_differs d && negb (is_some obs) then ["oracle:hash-differs-not-drifted"] else [])
  ++ (if d_launched d && calls_valid (d_pool_reqs d) && negb sat && negb (is_some obs) then ["oracle:labels-left-not-drifted"] else [])
  ++ (if (opt_str_eqb obs (Some "RequirementsDrifted") && calls_valid (d_pool_reqs d) && sat)
         || (opt_str_eqb obs (Some "NodePoolDrifted") && negb (hash_differs d) && d_launched d)
      then ["oracle:spurious-drift"] else []).
