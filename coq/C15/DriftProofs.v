(* C15 — proofs about the drift decision (C15/DriftModel.v). *)
From Coq Require Import Lia.
From KV Require Import C15.DriftModel Base.ReqProofs C13.Proofs.
Open Scope string_scope.
Open Scope list_scope.
Open Scope Z_scope.

(* ---------------------------------------------------------------- static drift *)
Lemma static_drifted_iff np_h np_v nc_h nc_v :
  static_drifted np_h np_v nc_h nc_v = true <->
  exists a b v, np_h = Some a /\ nc_h = Some b /\ np_v = Some v /\ nc_v = Some v /\ a <> b.
Proof.
  unfold static_drifted. split.
  - destruct np_h as [a|], np_v as [va|], nc_h as [b|], nc_v as [vb|]; try discriminate.
    intros H. apply andb_prop in H as [H1 H2]. apply String.eqb_eq in H1. subst vb.
    apply negb_true_iff, String.eqb_neq in H2. exists a, b, va. repeat split; auto.
  - intros (a & b & v & -> & -> & -> & -> & Hne). rewrite String.eqb_refl. simpl.
    apply negb_true_iff, String.eqb_neq, Hne.
Qed.

(* ---------------------------------------------------------------- Requirements.Add, key by key *)
(* the requirement stored for key k after adding rs on top of m *)
Definition merge1 (k : string) (acc : option req) (kr : string * req) : option req :=
  if String.eqb k (fst kr) then Some (match acc with Some ex => intersection (snd kr) ex | None => snd kr end) else acc.

Lemma find_add1 k m kr : find k (add1 m kr) = merge1 k (find k m) kr.
Proof.
  destruct kr as [k' r]. unfold add1, merge1. simpl.
  destruct (String.eqb_spec k k') as [->|Hne].
  - destruct (find k' m); apply find_set_same.
  - destruct (find k' m); apply find_set_other; exact Hne.
Qed.

Lemma find_add k rs : forall m, find k (add m rs) = fold_left (merge1 k) rs (find k m).
Proof.
  induction rs as [|kr rs IH]; intros m; [reflexivity|]. unfold add in *. simpl. rewrite IH, find_add1. reflexivity.
Qed.

(* with the empty normalisation tables the calls are used as written *)
Definition entry_req (kc : string * call) : string * req :=
  let '(k, (o, mv, vs)) := kc in (k, new_req o mv vs).

Lemma reqs_of_add cs : reqs_of cs = add [] (map entry_req cs).
Proof.
  unfold reqs_of, build_reqs. f_equal. apply map_ext. intros [k [[o mv] vs]]. reflexivity.
Qed.

Definition entries_valid (cs : list (string * call)) : Prop :=
  forall k o mv vs, List.In (k, (o, mv, vs)) cs -> valid_args o vs = true /\ not_extreme o vs = true.

Lemma reqs_of_inv cs : entries_valid cs -> wf_reqs (reqs_of cs) /\ nodup_keys (reqs_of cs).
Proof.
  intros Hv. rewrite reqs_of_add. apply add_inv; [|apply empty_inv].
  apply Forall_forall. intros [k r] Hin. apply in_map_iff in Hin as ([k' [[o mv] vs]] & E & Hin).
  simpl in E. inversion E; subst. simpl. apply wf_new_req. apply (Hv _ _ _ _ Hin).
Qed.

(* ---------------------------------------------------------------- absent labels *)
Lemma within_none v : within v None None = true.
Proof. reflexivity. Qed.

Lemma filter_true {A} (l : list A) : filter (fun _ => true) l = l.
Proof. induction l as [|x l IH]; simpl; [reflexivity|]. rewrite IH. reflexivity. Qed.

Lemma sat_undefined_shape r : sat_undefined r = true ->
  gte r = None /\ lte r = None /\ (compl r = true -> vals r <> []) /\ (compl r = false -> vals r = []).
Proof.
  unfold sat_undefined, operator, rlen. destruct r as [c vs g l mv]. cbn [compl vals gte lte].
  destruct c.
  - destruct (max64 - Z.of_nat (length vs) <? max64) eqn:E; [|discriminate].
    destruct g, l; try discriminate. intros _. repeat split; try discriminate.
    intros _ ->. simpl in E. discriminate.
  - destruct (0 <? Z.of_nat (length vs)) eqn:E; [discriminate|].
    destruct g, l; try discriminate. intros _. repeat split; try discriminate.
    intros _. destruct vs; [reflexivity|]. simpl length in E. rewrite Nat2Z.inj_succ in E.
    apply Z.ltb_ge in E. lia.
Qed.

Lemma sat_undefined_make c vs mv :
  (c = true -> vs <> []) -> (c = false -> vs = []) -> sat_undefined (mkReq c vs None None mv) = true.
Proof.
  intros H1 H2. unfold sat_undefined, operator, rlen. cbn [compl vals gte lte]. destruct c.
  - rewrite rlen_compl_lt by (apply H1; reflexivity). reflexivity.
  - rewrite (H2 eq_refl). reflexivity.
Qed.

(* an absent label that satisfies two requirements satisfies their intersection *)
Lemma sat_undefined_inter a b : sat_undefined a = true -> sat_undefined b = true -> sat_undefined (intersection a b) = true.
Proof.
  intros Ha Hb. apply sat_undefined_shape in Ha as (Ga & La & Ca & Na). apply sat_undefined_shape in Hb as (Gb & Lb & Cb & Nb).
  unfold intersection. rewrite Ga, La, Gb, Lb. cbn [max_opt min_opt].
  assert (F : forall l, filter (fun v => within v None None) l = l) by (intros l; apply filter_true).
  destruct (compl a) eqn:EA, (compl b) eqn:EB; cbn [andb]; rewrite F.
  - apply sat_undefined_make; [intros _|discriminate]. unfold sunion.
    destruct (vals a) eqn:Va; [exfalso; apply (Ca eq_refl); reflexivity|discriminate].
  - rewrite (Nb eq_refl). apply sat_undefined_make; [discriminate|reflexivity].
  - rewrite (Na eq_refl). apply sat_undefined_make; [discriminate|reflexivity].
  - rewrite (Na eq_refl). apply sat_undefined_make; [discriminate|reflexivity].
Qed.

Lemma admits_inter a b lbl : admits a lbl = true -> admits b lbl = true -> admits (intersection a b) lbl = true.
Proof.
  destruct lbl as [v|]; simpl.
  - intros H1 H2. rewrite has_intersection_admits, H1, H2. reflexivity.
  - apply sat_undefined_inter.
Qed.

Lemma admits_inter_some a b v : admits (intersection a b) (Some v) = true -> admits a (Some v) = true /\ admits b (Some v) = true.
Proof. simpl. rewrite has_intersection_admits. apply andb_prop. Qed.

(* ---------------------------------------------------------------- one constructor call vs Kubernetes *)
Lemma admits_new_req o mv vs lbl : valid_args o vs = true -> not_extreme o vs = true ->
  admits (new_req o mv vs) lbl = k8s_match o vs lbl.
Proof.
  intros Hv Hx. destruct lbl as [v|]; simpl; [apply has_new_req, Hv|apply sat_undefined_new_req; assumption].
Qed.

(* ---------------------------------------------------------------- merged requirement vs its entries *)
Definition matches_all (k : string) (cs : list (string * call)) (lbl : option string) : Prop :=
  forall o mv vs, List.In (k, (o, mv, vs)) cs -> k8s_match o vs lbl = true.

Lemma merged_admits_fwd k lbl cs : entries_valid cs -> matches_all k cs lbl ->
  forall acc, (match acc with Some r => admits r lbl = true | None => True end) ->
  match fold_left (merge1 k) (map entry_req cs) acc with Some r => admits r lbl = true | None => True end.
Proof.
  induction cs as [|[k' [[o mv] vs]] cs IH]; intros Hv Hm acc Hacc; [exact Hacc|]. simpl.
  apply IH.
  - intros k0 o0 mv0 vs0 Hin. apply (Hv k0 o0 mv0 vs0). right. exact Hin.
  - intros o0 mv0 vs0 Hin. apply (Hm o0 mv0 vs0). right. exact Hin.
  - unfold merge1. simpl. destruct (String.eqb_spec k k') as [->|Hne]; [|exact Hacc].
    assert (H1 : admits (new_req o mv vs) lbl = true).
    { destruct (Hv k' o mv vs (or_introl eq_refl)) as [V X]. rewrite admits_new_req by assumption.
      apply (Hm o mv vs). left. reflexivity. }
    destruct acc as [ex|]; [apply admits_inter; assumption|exact H1].
Qed.

Lemma merged_admits_bwd_some k v cs : entries_valid cs ->
  forall acc r, fold_left (merge1 k) (map entry_req cs) acc = Some r -> has r v = true ->
  matches_all k cs (Some v) /\ (match acc with Some r0 => has r0 v = true | None => True end).
Proof.
  induction cs as [|[k' [[o mv] vs]] cs IH]; intros Hv acc r Hf Hr.
  - simpl in Hf. subst acc. split; [intros ? ? ? []|exact Hr].
  - simpl in Hf.
    assert (Hv' : entries_valid cs) by (intros k0 o0 mv0 vs0 Hin; apply (Hv k0 o0 mv0 vs0); right; exact Hin).
    destruct (IH Hv' _ _ Hf Hr) as [Hm Hacc]. unfold merge1 in Hacc. simpl in Hacc.
    destruct (String.eqb_spec k k') as [->|Hne].
    + assert (H2 : has (new_req o mv vs) v = true /\ match acc with Some r0 => has r0 v = true | None => True end).
      { destruct acc as [ex|]; [|split; [exact Hacc|exact I]].
        rewrite has_intersection_admits in Hacc. apply andb_prop in Hacc. exact Hacc. }
      destruct H2 as [H2 H3]. split; [|exact H3].
      intros o0 mv0 vs0 [E|Hin]; [|apply (Hm o0 mv0 vs0 Hin)].
      inversion E; subst. rewrite <- (has_new_req o0 mv0 vs0 v) by (apply (Hv k' o0 mv0 vs0); left; reflexivity). exact H2.
    + split; [|exact Hacc]. intros o0 mv0 vs0 [E|Hin]; [inversion E; subst; congruence|apply (Hm o0 mv0 vs0 Hin)].
Qed.

(* ---------------------------------------------------------------- the claim's labels as requirements *)
Definition label_entry (kv : string * string) : string * req := (fst kv, new_req In None [snd kv]).

Lemma label_reqs_add l : label_reqs l = add [] (map label_entry l).
Proof. unfold label_reqs, label_calls. rewrite reqs_of_add, map_map. reflexivity. Qed.

Lemma merge_other k acc rs : (forall kr, List.In kr rs -> fst kr <> k) -> fold_left (merge1 k) rs acc = acc.
Proof.
  revert acc. induction rs as [|kr rs IH]; intros acc H; [reflexivity|]. simpl.
  unfold merge1 at 2. destruct (String.eqb_spec k (fst kr)) as [E|_].
  - exfalso. apply (H kr); [left; reflexivity|auto].
  - apply IH. intros kr' Hin. apply H. right. exact Hin.
Qed.

Lemma find_label_reqs k l : NoDup (map fst l) ->
  find k (label_reqs l) = option_map (fun v => new_req In None [v]) (lookup k l).
Proof.
  intros Hnd. rewrite label_reqs_add, find_add. simpl find.
  induction l as [|[k' v] l IH]; [reflexivity|]. inversion Hnd as [|? ? Hnot Hnd']; subst.
  simpl. unfold merge1 at 2. simpl. destruct (String.eqb_spec k k') as [->|Hne].
  - apply merge_other. intros kr Hin E. apply Hnot. apply in_map_iff in Hin as (kv & <- & Hin).
    simpl in E. rewrite <- E. apply in_map, Hin.
  - apply IH, Hnd'.
Qed.

Lemma admits_label v lbl : admits (new_req In None [v]) lbl = true <-> lbl = Some v.
Proof.
  destruct lbl as [w|]; simpl.
  - unfold has. simpl. rewrite andb_true_r, orb_false_r. rewrite String.eqb_eq. split; [intros ->; reflexivity|intros [= ->]; reflexivity].
  - split; discriminate.
Qed.

(* R1: not RequirementsDrifted iff every merged pool requirement admits the claim's label (or its absence) *)
Lemma not_drifted_iff cs l : entries_valid cs -> NoDup (map fst l) ->
  (requirements_drifted cs l = false <->
   forall k rb, find k (reqs_of cs) = Some rb -> admits rb (lookup k l) = true).
Proof.
  intros Hv Hnd. unfold requirements_drifted. rewrite negb_false_iff.
  destruct (reqs_of_inv cs Hv) as [Wb Nb].
  assert (Wa : wf_reqs (label_reqs l) /\ nodup_keys (label_reqs l)).
  { rewrite label_reqs_add. apply add_inv; [|apply empty_inv]. apply Forall_forall. intros [k r] Hin.
    apply in_map_iff in Hin as (kv & E & _). inversion E; subst. split; exact I. }
  destruct Wa as [Wa Na]. rewrite (compatible_iff [] _ _ Wa Wb Na Nb).
  split; intros H k rb Hf; specialize (H k rb Hf); unfold key_compatible in *; rewrite (find_label_reqs k l Hnd) in *.
  - destruct (lookup k l) as [v|]; simpl in *.
    + destruct H as (lbl & H1 & H2). apply admits_label in H1. subst lbl. exact H2.
    + destruct H as [H|H]; [discriminate|exact H].
  - destruct (lookup k l) as [v|]; simpl in *.
    + exists (Some v). split; [apply admits_label; reflexivity|exact H].
    + right. exact H.
Qed.

Lemma labels_satisfy_iff cs l :
  labels_satisfy cs l = true <-> forall k o mv vs, List.In (k, (o, mv, vs)) cs -> k8s_match o vs (lookup k l) = true.
Proof.
  unfold labels_satisfy. rewrite forallb_forall. split.
  - intros H k o mv vs Hin. apply (H (k, (o, mv, vs)) Hin).
  - intros H [k [[o mv] vs]] Hin. apply (H k o mv vs Hin).
Qed.

(* no spurious requirement drift: labels that satisfy every NodeSelectorRequirement of the pool
   (Kubernetes semantics) are never reported RequirementsDrifted *)
Lemma satisfying_labels_not_drifted cs l : entries_valid cs -> NoDup (map fst l) ->
  labels_satisfy cs l = true -> requirements_drifted cs l = false.
Proof.
  intros Hv Hnd Hs. apply (not_drifted_iff cs l Hv Hnd). intros k rb Hf.
  rewrite reqs_of_add, find_add in Hf. simpl find in Hf.
  pose proof (merged_admits_fwd k (lookup k l) cs Hv) as M.
  assert (Hm : matches_all k cs (lookup k l)).
  { intros o mv vs Hin. apply (proj1 (labels_satisfy_iff cs l) Hs k o mv vs Hin). }
  specialize (M Hm None I). rewrite Hf in M. exact M.
Qed.

Lemma merge_some k rs : forall a, exists r, fold_left (merge1 k) rs (Some a) = Some r.
Proof.
  induction rs as [|kr rs IH]; intros a; simpl; [eauto|].
  unfold merge1 at 2. destruct (k =? fst kr)%string; apply IH.
Qed.

Lemma merge_in k rs : (exists kr, List.In kr rs /\ fst kr = k) -> forall acc, exists r, fold_left (merge1 k) rs acc = Some r.
Proof.
  induction rs as [|kr0 rs IH]; [intros (? & [] & _)|].
  intros (kr & [->|Hin] & E) acc; simpl.
  - unfold merge1 at 2. rewrite E, String.eqb_refl. apply merge_some.
  - apply IH. exists kr. split; assumption.
Qed.

Lemma find_reqs_of_some k c cs : List.In (k, c) cs -> exists rb, find k (reqs_of cs) = Some rb.
Proof.
  intros Hin. rewrite reqs_of_add, find_add. apply merge_in.
  exists (entry_req (k, c)). split; [apply in_map, Hin|]. destruct c as [[o mv] vs]. reflexivity.
Qed.

(* the merged requirement for a key keeps the demand for presence that its entries make *)
Definition presence_kept (cs : list (string * call)) : Prop :=
  forall k rb, find k (reqs_of cs) = Some rb -> sat_undefined rb = true -> matches_all k cs None.

(* drift when labels leave: if the labels violate some requirement of the pool, the claim is reported
   RequirementsDrifted - provided no key's merged requirement forgot a demand for presence *)
Lemma labels_leave_drifted_partial cs l : entries_valid cs -> NoDup (map fst l) -> presence_kept cs ->
  labels_satisfy cs l = false -> requirements_drifted cs l = true.
Proof.
  intros Hv Hnd Hp Hs. destruct (requirements_drifted cs l) eqn:E; [reflexivity|]. exfalso.
  assert (Hall : labels_satisfy cs l = true); [|congruence].
  apply labels_satisfy_iff. intros k o mv vs Hin.
  pose proof (proj1 (not_drifted_iff cs l Hv Hnd) E) as H.
  destruct (find_reqs_of_some k _ cs Hin) as (rb & Hf).
  specialize (H k rb Hf). destruct (lookup k l) as [v|] eqn:Hl.
  - rewrite reqs_of_add, find_add in Hf. simpl find in Hf.
    destruct (merged_admits_bwd_some k v cs Hv None rb Hf H) as [Hm _]. apply (Hm o mv vs Hin).
  - apply (Hp k rb Hf H o mv vs Hin).
Qed.

(* ... and it is false without that proviso: {k Exists, k NotIn [a]} is merged to NotIn [a], which a claim
   without the label satisfies (finding requirement-intersection-forgets-presence) *)
Lemma labels_leave_drifted_refuted :
  exists cs l, entries_valid cs /\ NoDup (map fst l) /\ labels_satisfy cs l = false /\ requirements_drifted cs l = false.
Proof.
  exists [("k", (Exists, None, [])); ("k", (NotIn, None, ["a"]))], [].
  split; [|split; [constructor|split; reflexivity]].
  intros k o mv vs [E|[E|[]]]; inversion E; subst; split; reflexivity.
Qed.

Lemma contradictory_pool_not_drifted :
  let cs := [("k", (In, None, ["5"])); ("k", (In, None, ["a"]))] in
  labels_satisfy cs [] = false /\ requirements_drifted cs [] = false.
Proof. split; reflexivity. Qed.

(* ---------------------------------------------------------------- the reconcile *)
Lemma reconcile_static d prev : d_launched d = true ->
  static_drifted (d_np_hash d) (d_np_ver d) (d_nc_hash d) (d_nc_ver d) = true ->
  drift_reconcile d prev = Some "NodePoolDrifted".
Proof. intros Hl Hs. unfold drift_reconcile, is_drifted. rewrite Hl, Hs. reflexivity. Qed.

Lemma reconcile_requirements d prev : d_launched d = true ->
  requirements_drifted (d_pool_reqs d) (d_labels d) = true ->
  exists r, drift_reconcile d prev = Some r.
Proof.
  intros Hl Hr. unfold drift_reconcile, is_drifted. rewrite Hl, Hr. simpl.
  destruct (static_drifted _ _ _ _); eauto.
Qed.

Lemma reconcile_not_launched d prev : d_launched d = false -> drift_reconcile d prev = None.
Proof. intros Hl. unfold drift_reconcile. rewrite Hl. reflexivity. Qed.

(* a claim that is not drifted for any of the four causes ends without the condition *)
Lemma reconcile_clean d prev :
  static_drifted (d_np_hash d) (d_np_ver d) (d_nc_hash d) (d_nc_ver d) = false ->
  requirements_drifted (d_pool_reqs d) (d_labels d) = false ->
  (forall c, d_catalog d = Some c -> it_not_found (d_wk d) (d_reserved_keys d) (d_rid_key d) c (d_labels d) = false) ->
  d_catalog d <> None -> d_provider d = PReason "" ->
  drift_reconcile d prev = None.
Proof.
  intros Hs Hr Hc Hn Hp. unfold drift_reconcile, is_drifted. rewrite Hs, Hr, Hp. simpl.
  destruct (d_launched d); [|reflexivity]. simpl.
  destruct (negb (d_cached d) && (3600 <? d_age d)); [|reflexivity].
  destruct (d_catalog d) as [c|]; [|congruence]. rewrite (Hc c eq_refl). reflexivity.
Qed.

(* the hash controller leaves the pool with the current hash under the current version; a claim stamped by
   NewNodeClaimTemplate from the same pool object carries the same two values: no static drift *)
Lemma hash_reconcile_pool ver h pa cs : fst (hash_reconcile ver h pa cs) = (Some h, Some ver).
Proof. reflexivity. Qed.

Lemma fresh_not_static ver h : static_drifted (Some h) (Some ver) (Some h) (Some ver) = false.
Proof. unfold static_drifted. rewrite !String.eqb_refl. reflexivity. Qed.

(* claims already stamped with the current version are never touched; older ones are moved to the current
   version, and re-stamped with the pool's hash unless they already carry a Drifted condition *)
Lemma hash_reconcile_claims ver h pa cs :
  snd (hash_reconcile ver h pa cs) =
  if opt_str_eqb (snd pa) (Some ver) then cs
  else map (fun c => if opt_str_eqb (a_ver c) (Some ver) then c
                     else mkAnn (if a_drifted c then a_hash c else Some h) (Some ver) (a_drifted c)) cs.
Proof. unfold hash_reconcile. destruct (opt_str_eqb (snd pa) (Some ver)); reflexivity. Qed.

(* ---------------------------------------------------------------- oracle = specification *)
Definition step_holds (fresh : bool) (d : dinput) (obs : option string) : Prop :=
  (fresh = true -> obs = None) /\
  (d_launched d = true -> hash_differs d = true -> obs <> None) /\
  (d_launched d = true -> calls_valid (d_pool_reqs d) = true -> labels_satisfy (d_pool_reqs d) (d_labels d) = false -> obs <> None) /\
  (obs = Some "RequirementsDrifted" -> calls_valid (d_pool_reqs d) = true -> labels_satisfy (d_pool_reqs d) (d_labels d) = false) /\
  (obs = Some "NodePoolDrifted" -> d_launched d = true -> hash_differs d = true).

Lemma opt_str_eqb_eq a b : opt_str_eqb a b = true <-> a = b.
Proof.
  destruct a as [x|], b as [y|]; simpl; split; try discriminate; try reflexivity.
  - intros H. apply String.eqb_eq in H. congruence.
  - intros [= ->]. apply String.eqb_refl.
Qed.

Lemma step_oracle_spec fresh d obs : step_oracle_b fresh d obs = [] <-> step_holds fresh d obs.
Proof.
  unfold step_oracle_b, step_holds.
  destruct fresh, (d_launched d), (hash_differs d), (calls_valid (d_pool_reqs d)),
    (labels_satisfy (d_pool_reqs d) (d_labels d)), obs as [r|]; simpl;
    try (destruct (String.eqb_spec r "RequirementsDrifted") as [->|N1]; simpl);
    try (destruct (String.eqb_spec r "NodePoolDrifted") as [->|N2]; simpl);
    split; intros H; try discriminate; try reflexivity;
    repeat split; try congruence; try discriminate;
    try (destruct H as (H1 & H2 & H3 & H4 & H5));
    try (specialize (H1 eq_refl); discriminate);
    try (exfalso; apply (H2 eq_refl eq_refl); reflexivity);
    try (exfalso; apply (H3 eq_refl eq_refl eq_refl); reflexivity);
    try (specialize (H4 eq_refl eq_refl); discriminate);
    try (specialize (H5 eq_refl eq_refl); discriminate);
    try (intros [= E]; congruence).
Qed.

(* ---------------------------------------------------------------- no self-inflicted drift *)
(* requirements added later (template labels, simulation keys, pod requirements) only narrow *)
Lemma merge_narrows k v rs : forall rb rn, fold_left (merge1 k) rs (Some rb) = Some rn -> has rn v = true -> has rb v = true.
Proof.
  induction rs as [|kr rs IH]; intros rb rn Hf Hr; simpl in Hf.
  - inversion Hf; subst. exact Hr.
  - unfold merge1 at 2 in Hf. destruct (k =? fst kr)%string.
    + specialize (IH _ _ Hf Hr). rewrite has_intersection_admits in IH. apply andb_prop in IH. apply IH.
    + apply (IH _ _ Hf Hr).
Qed.

Lemma nct_narrows p pod k rb : find k (reqs_of (p_reqs p)) = Some rb ->
  exists rn, find k (nct_reqs p pod) = Some rn /\ forall v, has rn v = true -> has rb v = true.
Proof.
  intros Hf. unfold nct_reqs. rewrite reqs_of_add, map_app. rewrite reqs_of_add in Hf.
  unfold add in *. rewrite fold_left_app. fold (add [] (map entry_req (p_reqs p))).
  fold (add (add [] (map entry_req (p_reqs p))) (map entry_req (label_calls (tmpl_labels p) ++ sim_calls ++ pod))).
  rewrite find_add. unfold add in Hf |- *. rewrite Hf.
  destruct (merge_some k (map entry_req (label_calls (tmpl_labels p) ++ sim_calls ++ pod)) rb) as (rn & Hn).
  exists rn. split; [exact Hn|]. intros v. apply (merge_narrows k v _ _ _ Hn).
Qed.

(* a custom label resolved by Requirement.Any is admitted by the claim's requirement - unless the requirement
   carries an exclusion list (F10) *)
Lemma resolved_label_admitted r v : wf r -> C13.Model.canon r -> ordered r -> no_exclusions r ->
  any_allows r (Some v) = true -> v <> "" -> has r v = true.
Proof.
  intros W C O N A Hv. destruct (any_admitted_l r v W C O N A) as [[_ E]|H]; [contradiction|exact H].
Qed.

(* NO SELF DRIFT (partial). A claim stamped and launched from an unchanged pool is not reported drifted, provided
   for every key the pool constrains the claim's final label state is admitted by the claim's own (narrowed)
   requirement and, if the label is absent, the pool's requirement tolerates absence. The premise holds for
   labels resolved by Any() without exclusion lists ([resolved_label_admitted]) and for labels a provider sets
   within the claim's requirements (provider-label contract); it fails for the shapes of the _refuted lemmas. *)
Lemma no_self_drift_partial p pod final ver h age cached wk rk rid cat prev :
  entries_valid (p_reqs p) -> NoDup (map fst final) ->
  (forall k rb rn, find k (reqs_of (p_reqs p)) = Some rb -> find k (nct_reqs p pod) = Some rn ->
     match lookup k final with
     | Some v => has rn v = true
     | None => sat_undefined rb = true
     end) ->
  it_not_found wk rk rid cat final = false ->
  drift_reconcile (mkD true (Some h) (Some ver) (Some h) (Some ver) (p_reqs p) final age cached wk rk rid (Some cat) (PReason "")) prev = None.
Proof.
  intros Hv Hnd Hadm Hit. apply reconcile_clean; simpl.
  - apply fresh_not_static.
  - apply (not_drifted_iff _ _ Hv Hnd). intros k rb Hf.
    destruct (nct_narrows p pod k rb Hf) as (rn & Hn & Hnar).
    specialize (Hadm k rb rn Hf Hn). destruct (lookup k final) as [v|]; simpl; [apply Hnar, Hadm|exact Hadm].
  - intros c [= <-]. exact Hit.
  - discriminate.
  - reflexivity.
Qed.

(* the three input shapes for which a fresh claim IS reported drifted (confirmed on the real code) *)
Definition fresh_drifts (noresolve : list string) (p : pool) (claim : labels) : Prop :=
  claim_labels_allowed noresolve p [] claim = true /\ requirements_drifted (p_reqs p) claim = true.

Lemma no_self_drift_refuted_any :
  fresh_drifts [nodepool_key; "g/k"; "karpenter.sh/registered"; "karpenter.sh/initialized"]
    (mkPool "pool" ("g/k", "default") [] [("k", (NotIn, None, ["6"])); ("k", (Gt, None, ["4"])); ("k", (Lt, None, ["8"]))])
    [("k", "6"); (nodepool_key, "pool"); ("g/k", "default")].
Proof. split; vm_compute; reflexivity. Qed.

Lemma no_self_drift_refuted_template_label :
  fresh_drifts [nodepool_key; "g/k"; "karpenter.sh/registered"; "karpenter.sh/initialized"]
    (mkPool "pool" ("g/k", "default") [("k", "a")] [("k", (In, None, ["b"]))])
    [("k", "a"); (nodepool_key, "pool"); ("g/k", "default")].
Proof. split; vm_compute; reflexivity. Qed.

Lemma no_self_drift_refuted_empty_value :
  fresh_drifts [nodepool_key; "g/k"; "karpenter.sh/registered"; "karpenter.sh/initialized"]
    (mkPool "pool" ("g/k", "default") [] [("k", (In, None, [""]))])
    [(nodepool_key, "pool"); ("g/k", "default")].
Proof. split; vm_compute; reflexivity. Qed.

(* ---------------------------------------------------------------- claim creation vs the hash controller, any interleaving *)
Definition run_pool (ver : string) (ops : list pool_op) (s : pool_state) : pool_state := fold_left (pool_step ver) ops s.

(* the template a claim is built from: the last edit, whatever the hash controller did in between *)
Definition current_template (ops : list pool_op) (h0 : string) : string :=
  fold_left (fun h o => match o with PEdit h' | PRecreate h' => h' | PBuild | PHashCtl => h end) ops h0.

Lemma run_pool_template ver ops : forall s, ps_template_hash (run_pool ver ops s) = current_template ops (ps_template_hash s).
Proof.
  unfold run_pool, current_template. induction ops as [|o ops IH]; intros s; [reflexivity|].
  simpl. rewrite IH. destruct o; reflexivity.
Qed.

(* the stamp of a new claim is the hash of the template it is built from, under the current version *)
Lemma stamp_is_template_hash_l ver ops s :
  build_stamp ver (run_pool ver ops s) = (Some (current_template ops (ps_template_hash s)), Some ver).
Proof. unfold build_stamp. rewrite run_pool_template. reflexivity. Qed.

(* once the hash controller has reconciled (any number of times, at least once) after the claim was built, and the
   template was not edited again, the claim is not statically drifted - whatever happened before the build *)
Lemma fresh_claim_not_static_l ver ops s n :
  let built := run_pool ver ops s in
  let later := run_pool ver (repeat PHashCtl (S n)) built in
  static_drifted (fst (ps_ann later)) (snd (ps_ann later)) (fst (build_stamp ver built)) (snd (build_stamp ver built)) = false.
Proof.
  intros built later.
  assert (H : forall m st, ps_ann (run_pool ver (repeat PHashCtl (S m)) st) = (Some (ps_template_hash st), Some ver)
                          /\ ps_template_hash (run_pool ver (repeat PHashCtl (S m)) st) = ps_template_hash st).
  { induction m as [|m IH]; intros st; [split; reflexivity|].
    assert (E : run_pool ver (repeat PHashCtl (S (S m))) st = run_pool ver (repeat PHashCtl (S m)) (pool_step ver st PHashCtl)) by reflexivity.
    rewrite E. destruct (IH (pool_step ver st PHashCtl)) as [H1 H2]. rewrite H1, H2. split; reflexivity. }
  subst later. destruct (H n built) as [H1 _]. rewrite H1. simpl. apply fresh_not_static.
Qed.
