(* C15 — facts about the REGENERATED field table (gen/C15_fields.v): which paths of the NodePool spec reach
   NodePool.Hash(). These are finite computations; they stop checking as soon as a struct gains a field with
   (or loses) a `hash:"ignore"` tag, or NodePoolSpec gains a field. *)
From Coq Require Import Permutation.
From KV Require Import C15.Model C15.Proofs C15.Check gen.C15_fields.
Open Scope string_scope.

(* documented as non-drifting: requirements; plus ExpireAfter's Raw spelling, which only records how the user
   wrote the duration *)
Definition documented_unhashed_in_template : list string := [".Spec.Requirements"; ".Spec.ExpireAfter.Raw"].
(* documented as non-drifting: budgets and consolidation settings (Disruption), limits, weight; replicas *)
Definition documented_outside_template : list string := ["Disruption"; "Limits"; "Weight"; "Replicas"].
Definition expected_hashed : list string :=
  [".ObjectMeta.Labels"; ".ObjectMeta.Annotations";
   ".Spec.Taints[].Key"; ".Spec.Taints[].Value"; ".Spec.Taints[].Effect"; ".Spec.Taints[].TimeAdded.Time";
   ".Spec.StartupTaints[].Key"; ".Spec.StartupTaints[].Value"; ".Spec.StartupTaints[].Effect"; ".Spec.StartupTaints[].TimeAdded.Time";
   ".Spec.NodeClassRef.Kind"; ".Spec.NodeClassRef.Name"; ".Spec.NodeClassRef.Group";
   ".Spec.TerminationGracePeriod.Duration"; ".Spec.ExpireAfter.Duration"].

Lemma table_paths_l :
  unhashed_paths struct_table hash_root = documented_unhashed_in_template /\
  spec_fields_outside_hash struct_table = documented_outside_template /\
  hashed_paths struct_table hash_root = expected_hashed.
Proof. vm_compute. repeat split; reflexivity. Qed.

(* lifted to values: whatever the requirements list holds, a template spec hashes the same *)
Lemma requirements_not_hashed_l pre post v v' :
  canon struct_table (GStruct "NodeClaimTemplateSpec" (pre ++ ("Requirements", v) :: post)) =
  canon struct_table (GStruct "NodeClaimTemplateSpec" (pre ++ ("Requirements", v') :: post)).
Proof. apply struct_ignores. vm_compute. discriminate. Qed.

Lemma raw_not_hashed_l pre post v v' :
  canon struct_table (GStruct "NillableDuration" (pre ++ ("Raw", v) :: post)) =
  canon struct_table (GStruct "NillableDuration" (pre ++ ("Raw", v') :: post)).
Proof. apply struct_ignores. vm_compute. discriminate. Qed.

(* oracle of the pair check = its specification *)
Lemma pair_oracle_spec e hash_eq : pair_holds_b e hash_eq = true <-> pair_holds e hash_eq.
Proof. destruct e, hash_eq; simpl; split; intros H; try reflexivity; try discriminate; exact I. Qed.

(* ---------------------------------------------------------------- example values over the real table *)
Definition taint (k e : string) : gv :=
  GStruct "Taint" [("Key", GStr k); ("Value", GStr ""); ("Effect", GStr e); ("TimeAdded", GNil (GStruct "Time" [("Time", GTime true "")]))].
Definition spec_of (taints : list gv) (reqs : gv) : gv :=
  GStruct "NodeClaimTemplateSpec" [("Taints", GSlice false taints); ("StartupTaints", GSlice true []); ("Requirements", reqs);
    ("NodeClassRef", GPtr (GStruct "NodeClassReference" [("Kind", GStr "K"); ("Name", GStr "n"); ("Group", GStr "g")]));
    ("TerminationGracePeriod", GNil (GStruct "Duration" [("Duration", GNum 8 0)]));
    ("ExpireAfter", GStruct "NillableDuration" [("Duration", GNil (GNum 8 0)); ("Raw", GSlice true [])])].

Lemma hash_examples_l :
  reorder (spec_of [taint "a" "NoSchedule"; taint "b" "NoExecute"] (GSlice true []))
          (spec_of [taint "b" "NoExecute"; taint "a" "NoSchedule"] (GSlice true [])) /\
  conforms struct_table (spec_of [taint "a" "NoSchedule"; taint "b" "NoExecute"] (GSlice true [])) = true /\
  same_hash struct_table (spec_of [taint "a" "NoSchedule"; taint "b" "NoExecute"] (GSlice true []))
                         (spec_of [taint "b" "NoExecute"; taint "a" "NoSchedule"] (GSlice true [])) = true /\
  same_hash struct_table (spec_of [taint "a" "NoSchedule"] (GSlice true []))
                         (spec_of [taint "a" "NoSchedule"] (GSlice false [GStr "anything"])) = true /\
  same_hash struct_table (spec_of [taint "a" "NoSchedule"] (GSlice true []))
                         (spec_of [taint "a" "NoExecute"] (GSlice true [])) = false /\
  same_hash struct_table (spec_of [taint "a" "NoSchedule"; taint "a" "NoSchedule"] (GSlice true []))
                         (spec_of [] (GSlice true [])) = true.
Proof.
  split.
  - apply ro_struct. constructor; [apply ro_slice_perm, perm_swap|apply reorder_fields_refl].
  - vm_compute. repeat split; reflexivity.
Qed.
