(* C15 — model of NodePool.Hash(): mitchellh/hashstructure v2 (FormatV2) run with
   SlicesAsSets, IgnoreZeroValue and ZeroNil over Spec.Template, executed SYMBOLICALLY.

   The 64-bit FNV values are not computed; a hash value is a term over the primitive operations
   the library applies (fnv of a string / of a number's bytes, hashUpdateOrdered, hashFinishUnordered)
   combined by XOR, kept in normal form: an XOR of terms is the strictly sorted list of the terms that
   occur an odd number of times (x ^ x = 0, commutative, associative). Two values get the same real hash
   whenever their normal forms are equal, and - unless FNV collides - only then.

   Which struct fields are visited is NOT written here: it is read from the field table
   gen/C15_fields.v that the harness regenerates from the real Go types on every run.
   Executable definitions only; proofs are in C15/Proofs*.v. The drift logic is in C15/DriftModel.v. *)
From KV Require Export C15.Types.
Open Scope Z_scope.
Open Scope string_scope.

(* ---------------------------------------------------------------- reflect.Value.IsZero *)
Fixpoint is_zero (v : gv) : bool :=
  match v with
  | GStr s => String.eqb s ""
  | GNum _ u => Z.eqb u 0
  | GTime z _ => z
  | GNil _ => true
  | GPtr _ => false
  | GSlice n _ => n
  | GMap n _ => n
  | GStruct _ fs => forallb (fun f => is_zero (snd f)) fs      (* every field, exported or not, tagged or not *)
  end.

(* ---------------------------------------------------------------- field table lookups *)
Definition fields_of (tb : table) (ty : string) : list (string * fattr * ftype) :=
  match List.find (fun p => String.eqb ty (fst p)) tb with Some p => snd p | None => [] end.

Definition attr_of (tb : table) (ty fn : string) : fattr :=
  match List.find (fun p => String.eqb fn (fst (fst p))) (fields_of tb ty) with
  | Some p => snd (fst p)
  | None => Hashed
  end.

(* the struct loop's three `continue`s: unexported, tag ignore/-, IgnoreZeroValue && IsZero *)
Definition skipped (tb : table) (ty : string) (f : string * gv) : bool :=
  negb (fattr_eqb (attr_of tb ty (fst f)) Hashed) || is_zero (snd f).

(* ---------------------------------------------------------------- symbolic hash values *)
Inductive ht :=
| HS (s : string)          (* fnv(bytes of s) *)
| HN (w u : Z)             (* fnv(binary.Write little endian of a w-byte number) *)
| HT (s : string)          (* fnv(time.Time.MarshalBinary()) *)
| HO (a b : ht)            (* hashUpdateOrdered(a, b); a, b are XOR-spines *)
| HF (a : ht)              (* hashFinishUnordered(a); a is an XOR-spine *)
| HX (a b : ht)            (* a ^ b : head ^ rest of the spine *)
| HZ.                      (* 0 *)

Fixpoint spine (l : list ht) : ht :=
  match l with [] => HZ | x :: t => HX x (spine t) end.

Definition lexc (c d : comparison) : comparison := match c with Eq => d | _ => c end.

Definition rank (a : ht) : Z :=
  match a with HS _ => 0 | HN _ _ => 1 | HT _ => 2 | HO _ _ => 3 | HF _ => 4 | HX _ _ => 5 | HZ => 6 end.

(* a total order on terms, only used to make normal forms unique *)
Fixpoint cmp (a b : ht) : comparison :=
  match a, b with
  | HS s, HS t => String.compare s t
  | HN w u, HN w' u' => lexc (Z.compare w w') (Z.compare u u')
  | HT s, HT t => String.compare s t
  | HO a1 a2, HO b1 b2 => lexc (cmp a1 b1) (cmp a2 b2)
  | HF a1, HF b1 => cmp a1 b1
  | HX a1 a2, HX b1 b2 => lexc (cmp a1 b1) (cmp a2 b2)
  | HZ, HZ => Eq
  | _, _ => Z.compare (rank a) (rank b)
  end.

Definition ht_eqb (a b : ht) : bool := match cmp a b with Eq => true | _ => false end.

(* XOR one term into a normal form: insert, or cancel an equal term *)
Fixpoint xins (x : ht) (l : list ht) : list ht :=
  match l with
  | [] => [x]
  | y :: t => match cmp x y with Lt => x :: l | Eq => t | Gt => y :: xins x t end
  end.

(* XOR of a list of terms *)
Definition xnorm (l : list ht) : list ht := fold_right xins [] l.

(* ---------------------------------------------------------------- walker.visit *)
Fixpoint canon (tb : table) (v : gv) : list ht :=
  match v with
  | GStr s => [HS s]
  | GNum w u => [HN w u]
  | GTime _ b => [HT b]
  | GNil z => canon tb z                                   (* ZeroNil: hash the pointee type's zero value *)
  | GPtr x => canon tb x
  | GSlice _ l => xnorm (flat_map (canon tb) l)            (* SlicesAsSets: h ^= visit(elem); no finish *)
  | GMap _ l =>
      [HF (spine (xnorm (map (fun kv => HO (spine (canon tb (fst kv))) (spine (canon tb (snd kv)))) l)))]
  | GStruct ty fs =>
      fold_left (fun h f =>
                   if skipped tb ty f then h
                   else [HF (spine (xins (HO (spine [HS (fst f)]) (spine (canon tb (snd f)))) h))])
                fs [HS ty]                                 (* h = visit(t.Name()); per field: finish(h ^ ordered(name, value)) *)
  end.

Fixpoint hts_eqb (a b : list ht) : bool :=
  match a, b with
  | [], [] => true
  | x :: a', y :: b' => ht_eqb x y && hts_eqb a' b'
  | _, _ => false
  end.

(* NodePool.Hash() equality of two templates, as the model sees it *)
Definition same_hash (tb : table) (a b : gv) : bool := hts_eqb (canon tb a) (canon tb b).

(* ---------------------------------------------------------------- the value was encoded against this table *)
Fixpoint strs_eqb (a b : list string) : bool :=
  match a, b with
  | [], [] => true
  | x :: a', y :: b' => String.eqb x y && strs_eqb a' b'
  | _, _ => false
  end.

Fixpoint conforms (tb : table) (v : gv) : bool :=
  match v with
  | GStruct ty fs =>
      strs_eqb (map fst fs) (map (fun p => fst (fst p)) (fields_of tb ty))
      && forallb (fun f => conforms tb (snd f)) fs
  | GNil z => conforms tb z
  | GPtr x => conforms tb x
  | GSlice _ l => forallb (conforms tb) l
  | GMap _ l => forallb (fun kv => conforms tb (fst kv) && conforms tb (snd kv)) l
  | _ => true
  end.

(* ---------------------------------------------------------------- which paths reach the hash *)
(* leaf paths below a type with the flag "every field on the way is Hashed"; a path is cut at the first
   field that is not hashed. fuel bounds the unfolding of (possibly recursive) named struct types. *)
Fixpoint paths (tb : table) (fuel : nat) (pre : string) (hashed : bool) (t : ftype) : list (string * bool) :=
  match fuel with
  | O => [(pre, hashed)]
  | S fuel' =>
      match t with
      | TPtr t' => paths tb fuel' pre hashed t'
      | TSlice t' => paths tb fuel' (pre ++ "[]") hashed t'
      | TStruct n =>
          flat_map (fun p : string * fattr * ftype =>
                      let '(fn, fa, ft) := p in
                      if hashed && fattr_eqb fa Hashed then paths tb fuel' (pre ++ "." ++ fn) true ft
                      else [(pre ++ "." ++ fn, false)])
                   (fields_of tb n)
      | _ => [(pre, hashed)]
      end
  end.

Definition hashed_paths (tb : table) (root : string) : list string :=
  map fst (filter (fun p => snd p) (paths tb 12 "" true (TStruct root))).
Definition unhashed_paths (tb : table) (root : string) : list string :=
  map fst (filter (fun p => negb (snd p)) (paths tb 12 "" true (TStruct root))).

(* NodePool.Hash() hashes in.Spec.Template and nothing else of the spec *)
Definition hash_root : string := "NodeClaimTemplate".
Definition spec_fields_outside_hash (tb : table) : list string :=
  filter (fun fn => negb (String.eqb fn "Template")) (map (fun p => fst (fst p)) (fields_of tb "NodePoolSpec")).

(* ---------------------------------------------------------------- the same walk with abstract FNV primitives *)
(* hashstructure itself, with XOR being the real XOR on numbers and the four FNV-based primitives left
   abstract. Used to state that the real hash factors through [canon] whatever FNV is. *)
Section AbstractHash.
  Variable fnv_str : string -> Z.
  Variable fnv_num : Z -> Z -> Z.
  Variable fnv_time : string -> Z.
  Variable upd_ordered : Z -> Z -> Z.
  Variable finish : Z -> Z.

  Fixpoint hash (tb : table) (v : gv) : Z :=
    match v with
    | GStr s => fnv_str s
    | GNum w u => fnv_num w u
    | GTime _ b => fnv_time b
    | GNil z => hash tb z
    | GPtr x => hash tb x
    | GSlice _ l => fold_left (fun h x => Z.lxor h (hash tb x)) l 0
    | GMap _ l => finish (fold_left (fun h kv => Z.lxor h (upd_ordered (hash tb (fst kv)) (hash tb (snd kv)))) l 0)
    | GStruct ty fs =>
        fold_left (fun h f => if skipped tb ty f then h
                              else finish (Z.lxor h (upd_ordered (fnv_str (fst f)) (hash tb (snd f)))))
                  fs (fnv_str ty)
    end.

  (* value of a symbolic term *)
  Fixpoint eval (a : ht) : Z :=
    match a with
    | HS s => fnv_str s
    | HN w u => fnv_num w u
    | HT s => fnv_time s
    | HO a b => upd_ordered (eval a) (eval b)
    | HF a => finish (eval a)
    | HX a b => Z.lxor (eval a) (eval b)
    | HZ => 0
    end.
  Definition evals (l : list ht) : Z := eval (spine l).
End AbstractHash.
