(* C15 — data types shared by the generated field table (gen/C15_fields.v) and the model. *)
From Coq Require Export ZArith String List Bool.
Export ListNotations.

(* shape of a Go type as reflection sees it (only what hashstructure distinguishes) *)
Inductive ftype :=
| TStr
| TNum (width : Z)            (* bool and every integer kind; width in bytes after hashstructure's widening *)
| TTime                       (* time.Time: hashed through MarshalBinary *)
| TPtr (t : ftype)
| TSlice (t : ftype)
| TMap (k v : ftype)
| TStruct (name : string)
| TIface.

(* how hashstructure treats a struct field *)
Inductive fattr :=
| Hashed                      (* exported, no `hash` tag *)
| Ignored                     (* hash:"ignore" or hash:"-" *)
| Unexported.                 (* PkgPath != "" : skipped *)

Definition fattr_eqb (a b : fattr) : bool :=
  match a, b with
  | Hashed, Hashed | Ignored, Ignored | Unexported, Unexported => true
  | _, _ => false
  end.

Definition table := list (string * list (string * fattr * ftype)).

(* a Go value as reflection sees it *)
Inductive gv :=
| GStr (s : string)
| GNum (width : Z) (u : Z)            (* the little-endian bytes binary.Write emits, as an unsigned number *)
| GTime (zero : bool) (bytes : string) (* reflect IsZero, hex of MarshalBinary *)
| GNil (zero : gv)                    (* nil pointer / interface; [zero] = zero value of the pointee type (ZeroNil) *)
| GPtr (v : gv)
| GSlice (isnil : bool) (l : list gv)
| GMap (isnil : bool) (l : list (gv * gv))
| GStruct (ty : string) (fs : list (string * gv)).   (* t.Name(); every field in declaration order *)
