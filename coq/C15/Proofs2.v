(* C15 — the hash sees every change of a hashed field (detection), and the real walk with arbitrary FNV
   primitives factors through the symbolic normal form. *)
From Coq Require Import Lia Permutation.
From KV Require Import C15.Model C15.Proofs.
Open Scope Z_scope.

(* ---------------------------------------------------------------- sizes (a term is not its own sub-term) *)
Fixpoint size (a : ht) : nat :=
  match a with
  | HS _ | HN _ _ | HT _ | HZ => 1
  | HO a b | HX a b => S (size a + size b)
  | HF a => S (size a)
  end.

Lemma spine_inj l : forall l', spine l = spine l' -> l = l'.
Proof.
  induction l as [|x l IH]; intros [|y l']; simpl; try discriminate; [reflexivity|].
  intros E. inversion E; subst. f_equal. apply IH. assumption.
Qed.

Lemma size_spine_in a l : List.In a l -> (size a < size (spine l))%nat.
Proof.
  induction l as [|x l IH]; simpl; [tauto|]. intros [->|H]; [lia|]. specialize (IH H). lia.
Qed.

Lemma single_hf_inj a b : [HF (spine a)] = [HF (spine b)] -> a = b.
Proof. intros E. injection E as E. apply spine_inj, E. Qed.

(* ---------------------------------------------------------------- the struct loop keeps a sealed accumulator *)
Definition is_ho (a : ht) : bool := match a with HO _ _ => true | _ => false end.
Definition sealed (h : list ht) : Prop := exists a, h = [a] /\ is_ho a = false.

Definition pair2 (x a : ht) : list ht := match a with HF _ | HX _ _ | HZ => [x; a] | _ => [a; x] end.

Lemma xins_ho_sealed x1 x2 a : is_ho a = false -> xins (HO x1 x2) [a] = pair2 (HO x1 x2) a.
Proof. destruct a; simpl; intros H; try reflexivity; discriminate. Qed.

Lemma pair2_inj x x' a a' : is_ho x = true -> is_ho x' = true -> is_ho a = false -> is_ho a' = false ->
  pair2 x a = pair2 x' a' -> x = x' /\ a = a'.
Proof.
  intros Hx Hx' Ha Ha' E.
  destruct a; simpl in *; try discriminate; destruct a'; simpl in *; try discriminate;
    inversion E; subst; try (split; reflexivity);
    try (rewrite Hx in *; discriminate); try (rewrite Hx' in *; discriminate);
    simpl in *; try discriminate.
Qed.

Section Detect.
Variable tb : table.

Lemma step_sealed ty h f : sealed h -> sealed (step tb ty h f).
Proof.
  intros Hs. unfold step. destruct (skipped tb ty f); [exact Hs|].
  eexists. split; reflexivity.
Qed.

Lemma fold_sealed ty fs : forall h, sealed h -> sealed (fold_left (step tb ty) fs h).
Proof. induction fs as [|f fs IH]; simpl; intros h Hs; [exact Hs|]. apply IH, step_sealed, Hs. Qed.

Lemma step_inj ty h h' f : sealed h -> sealed h' -> h <> h' -> step tb ty h f <> step tb ty h' f.
Proof.
  intros (a & -> & Ha) (a' & -> & Ha') Hne. unfold step. destruct (skipped tb ty f); [exact Hne|].
  intros E1. apply single_hf_inj in E1.
  rewrite !xins_ho_sealed in E1 by assumption.
  apply pair2_inj in E1 as [_ ->]; try assumption; try reflexivity. congruence.
Qed.

Lemma fold_inj ty fs : forall h h', sealed h -> sealed h' -> h <> h' ->
  fold_left (step tb ty) fs h <> fold_left (step tb ty) fs h'.
Proof.
  induction fs as [|f fs IH]; simpl; intros h h' Hs Hs' Hne; [exact Hne|].
  apply IH; try apply step_sealed; try assumption. apply step_inj; assumption.
Qed.

(* what the walker sees of one field value: nothing when skipped, else its symbolic hash *)
Definition view (ty : string) (f : string * gv) : option (list ht) :=
  if skipped tb ty f then None else Some (canon tb (snd f)).

Lemma step_detects ty h fn v v' : sealed h ->
  view ty (fn, v) <> view ty (fn, v') ->
  match skipped tb ty (fn, v), skipped tb ty (fn, v') with
  | false, false => step tb ty h (fn, v) <> step tb ty h (fn, v')
  | _, _ => True
  end.
Proof.
  intros (a & -> & Ha) Hv. unfold view in Hv.
  destruct (skipped tb ty (fn, v)) eqn:S1, (skipped tb ty (fn, v')) eqn:S2; try exact I.
  unfold step. rewrite S1, S2. intros E1. apply single_hf_inj in E1. cbn [fst snd] in E1.
  rewrite !xins_ho_sealed in E1 by assumption.
  apply pair2_inj in E1 as [E1 _]; try assumption; try reflexivity.
  injection E1 as E2. apply spine_inj in E2. cbn [snd] in Hv. congruence.
Qed.

(* the accumulator before a skipped/unskipped step differs from the one after: ruled out above by constructors
   only when a is an HO; the general argument is by size *)
Lemma hf_spine_neq L a : List.In a L -> HF (spine L) <> a.
Proof. intros Hin E. apply size_spine_in in Hin. rewrite <- E in Hin. simpl in Hin. lia. Qed.

Lemma step_grows ty a f : is_ho a = false -> skipped tb ty f = false -> step tb ty [a] f <> [a].
Proof.
  intros Ha Hs. unfold step. rewrite Hs. intros E.
  apply (hf_spine_neq (xins (HO (spine [HS (fst f)]) (spine (canon tb (snd f)))) [a]) a).
  - rewrite xins_ho_sealed by exact Ha. destruct a; simpl; auto.
  - injection E as E1. exact E1.
Qed.

Lemma step_detects' ty h fn v v' : sealed h ->
  view ty (fn, v) <> view ty (fn, v') -> step tb ty h (fn, v) <> step tb ty h (fn, v').
Proof.
  intros Hs Hv. pose proof Hs as (a & -> & Ha). unfold view in Hv.
  destruct (skipped tb ty (fn, v)) eqn:S1, (skipped tb ty (fn, v')) eqn:S2.
  - congruence.
  - unfold step at 1. rewrite S1. intros E. symmetry in E. revert E. apply step_grows; assumption.
  - unfold step at 2. rewrite S2. apply step_grows; assumption.
  - pose proof (step_detects ty [a] fn v v' Hs) as D. unfold view in D. rewrite S1, S2 in D. apply D, Hv.
Qed.

(* DETECTION, struct level: two structs of the same type that differ in what the walker sees of one field
   (value hashed differently, or zero on one side only) hash differently - whatever the other fields hold *)
Lemma struct_detects ty pre post fn v v' :
  view ty (fn, v) <> view ty (fn, v') ->
  canon tb (GStruct ty (pre ++ (fn, v) :: post)) <> canon tb (GStruct ty (pre ++ (fn, v') :: post)).
Proof.
  intros Hv. rewrite !canon_struct, !fold_step_app. simpl.
  assert (Hs : sealed (fold_left (step tb ty) pre [HS ty])).
  { apply fold_sealed. eexists. split; reflexivity. }
  apply fold_inj; try apply step_sealed; try exact Hs.
  apply step_detects'; assumption.
Qed.

(* the change may also sit deeper: through pointers and nested structs *)
Inductive hashed_edit : gv -> gv -> Prop :=
| he_here ty pre post fn v v' :
    view ty (fn, v) <> view ty (fn, v') ->
    hashed_edit (GStruct ty (pre ++ (fn, v) :: post)) (GStruct ty (pre ++ (fn, v') :: post))
| he_field ty pre post fn a b :
    attr_of tb ty fn = Hashed -> is_zero a = false -> is_zero b = false ->
    hashed_edit a b -> hashed_edit (GStruct ty (pre ++ (fn, a) :: post)) (GStruct ty (pre ++ (fn, b) :: post))
| he_ptr a b : hashed_edit a b -> hashed_edit (GPtr a) (GPtr b).

Lemma hashed_edit_detected a b : hashed_edit a b -> canon tb a <> canon tb b.
Proof.
  induction 1 as [ty pre post fn v v' Hv|ty pre post fn a b Hat Za Zb _ IH|a b _ IH].
  - apply struct_detects, Hv.
  - apply struct_detects. unfold view, skipped. simpl. rewrite Hat, Za, Zb. simpl. congruence.
  - exact IH.
Qed.

(* ---------------------------------------------------------------- slices and maps: sets modulo 2 *)
(* a slice hashes like another iff every element hash occurs with the same parity in both *)
Lemma slice_same_iff n n' l l' :
  canon tb (GSlice n l) = canon tb (GSlice n' l') <->
  forall z, occ z (concat (map (canon tb) l)) = occ z (concat (map (canon tb) l')).
Proof. rewrite !canon_slice. apply xnorm_eq_iff. Qed.

(* without repeated element hashes (validated pools: no duplicate taints) a slice is seen as the set of its elements *)
Lemma slice_detects_partial n n' l l' :
  NoDup (concat (map (canon tb) l)) -> NoDup (concat (map (canon tb) l')) ->
  (canon tb (GSlice n l) = canon tb (GSlice n' l') <->
   forall z, List.In z (concat (map (canon tb) l)) <-> List.In z (concat (map (canon tb) l'))).
Proof. intros N N'. rewrite !canon_slice. apply xnorm_nodup_eq; assumption. Qed.

Lemma map_same_iff n n' l l' :
  canon tb (GMap n l) = canon tb (GMap n' l') <->
  forall z, occ z (map (entry tb) l) = occ z (map (entry tb) l').
Proof.
  rewrite !canon_map. rewrite <- xnorm_eq_iff. split.
  - intros E. inversion E as [E1]. apply spine_inj in E1. exact E1.
  - intros ->. reflexivity.
Qed.

End Detect.

(* the unguarded statement is false: an element added twice cancels *)
Lemma slice_detect_refuted :
  exists tb l l', canon tb (GSlice false l) = canon tb (GSlice false l') /\
                  ~ (forall z, List.In z (concat (map (canon tb) l)) <-> List.In z (concat (map (canon tb) l'))).
Proof.
  exists [], [GStr "t"; GStr "t"], []. split; [reflexivity|].
  intros H. destruct (H (HS "t")) as [H1 _]. simpl in H1. apply H1. left. reflexivity.
Qed.

(* an ignored field can still reach the hash through the zero-ness of its struct *)
Lemma ignored_edit_unguarded_refuted :
  exists tb ty fn v v' outer,
    attr_of tb ty fn = Ignored /\
    canon tb (GStruct outer [("F"%string, GStruct ty [(fn, v)])]) <> canon tb (GStruct outer [("F"%string, GStruct ty [(fn, v')])]).
Proof.
  exists [("T"%string, [("Raw"%string, Ignored, TStr)])], "T"%string, "Raw"%string, (GStr ""), (GStr "x"), "O"%string.
  split; [reflexivity|]. vm_compute. discriminate.
Qed.

(* ---------------------------------------------------------------- induction on values *)
Section GvInd.
  Variable P : gv -> Prop.
  Hypothesis Hstr : forall s, P (GStr s).
  Hypothesis Hnum : forall w u, P (GNum w u).
  Hypothesis Htime : forall z b, P (GTime z b).
  Hypothesis Hnil : forall z, P z -> P (GNil z).
  Hypothesis Hptr : forall x, P x -> P (GPtr x).
  Hypothesis Hslice : forall n l, Forall P l -> P (GSlice n l).
  Hypothesis Hmap : forall n l, Forall (fun kv => P (fst kv) /\ P (snd kv)) l -> P (GMap n l).
  Hypothesis Hstruct : forall ty fs, Forall (fun f => P (snd f)) fs -> P (GStruct ty fs).

  Fixpoint gv_ind2 (v : gv) : P v :=
    match v with
    | GStr s => Hstr s
    | GNum w u => Hnum w u
    | GTime z b => Htime z b
    | GNil z => Hnil z (gv_ind2 z)
    | GPtr x => Hptr x (gv_ind2 x)
    | GSlice n l =>
        Hslice n l ((fix go (l : list gv) : Forall P l :=
                       match l with [] => Forall_nil _ | x :: t => Forall_cons _ (gv_ind2 x) (go t) end) l)
    | GMap n l =>
        Hmap n l ((fix go (l : list (gv * gv)) : Forall (fun kv => P (fst kv) /\ P (snd kv)) l :=
                     match l with
                     | [] => Forall_nil _
                     | kv :: t => Forall_cons _ (conj (gv_ind2 (fst kv)) (gv_ind2 (snd kv))) (go t)
                     end) l)
    | GStruct ty fs =>
        Hstruct ty fs ((fix go (l : list (string * gv)) : Forall (fun f => P (snd f)) l :=
                          match l with [] => Forall_nil _ | f :: t => Forall_cons _ (gv_ind2 (snd f)) (go t) end) fs)
    end.
End GvInd.

(* ---------------------------------------------------------------- the real walk factors through canon *)
Section Factor.
Variable fnv_str : string -> Z.
Variable fnv_num : Z -> Z -> Z.
Variable fnv_time : string -> Z.
Variable upd_ordered : Z -> Z -> Z.
Variable finish : Z -> Z.
Variable tb : table.

Notation ev := (eval fnv_str fnv_num fnv_time upd_ordered finish).
Notation evs := (evals fnv_str fnv_num fnv_time upd_ordered finish).
Notation H := (hash fnv_str fnv_num fnv_time upd_ordered finish tb).

Lemma evs_cons x l : evs (x :: l) = Z.lxor (ev x) (evs l).
Proof. reflexivity. Qed.

Lemma evs_xins x l : evs (xins x l) = Z.lxor (ev x) (evs l).
Proof.
  induction l as [|y t IH]; [reflexivity|]. cbn [xins].
  destruct (cmp x y) eqn:E.
  - apply cmp_eq in E. subst y. rewrite evs_cons, <- Z.lxor_assoc, Z.lxor_nilpotent, Z.lxor_0_l. reflexivity.
  - rewrite evs_cons. reflexivity.
  - rewrite !evs_cons, IH, <- !Z.lxor_assoc. f_equal. apply Z.lxor_comm.
Qed.

Lemma evs_app a b : evs (a ++ b) = Z.lxor (evs a) (evs b).
Proof.
  induction a as [|x a IH]; simpl; [reflexivity|]. rewrite !evs_cons, IH, Z.lxor_assoc. reflexivity.
Qed.

Lemma evs_xnorm l : evs (xnorm l) = evs l.
Proof. induction l as [|x l IH]; simpl; [reflexivity|]. rewrite evs_xins, evs_cons, IH. reflexivity. Qed.

Lemma evs_single a : evs [a] = ev a.
Proof. unfold evals. simpl. apply Z.lxor_0_r. Qed.

Lemma fold_xor_shift (f : gv -> Z) l : forall h, fold_left (fun h x => Z.lxor h (f x)) l h = Z.lxor h (fold_left (fun h x => Z.lxor h (f x)) l 0).
Proof.
  induction l as [|x l IH]; simpl; intros h; [rewrite Z.lxor_0_r; reflexivity|].
  rewrite IH, (IH (f x)), Z.lxor_assoc. reflexivity.
Qed.

Lemma fold_xor_shift2 (f : gv * gv -> Z) l : forall h, fold_left (fun h x => Z.lxor h (f x)) l h = Z.lxor h (fold_left (fun h x => Z.lxor h (f x)) l 0).
Proof.
  induction l as [|x l IH]; simpl; intros h; [rewrite Z.lxor_0_r; reflexivity|].
  rewrite IH, (IH (f x)), Z.lxor_assoc. reflexivity.
Qed.

Lemma hash_slice n l : H (GSlice n l) = fold_left (fun h x => Z.lxor h (H x)) l 0.
Proof. reflexivity. Qed.
Lemma hash_map n l : H (GMap n l) = finish (fold_left (fun h kv => Z.lxor h (upd_ordered (H (fst kv)) (H (snd kv)))) l 0).
Proof. reflexivity. Qed.
Lemma hash_struct ty fs : H (GStruct ty fs) =
  fold_left (fun h f => if skipped tb ty f then h else finish (Z.lxor h (upd_ordered (fnv_str (fst f)) (H (snd f))))) fs (fnv_str ty).
Proof. reflexivity. Qed.
Lemma ev_hf a : ev (HF (spine a)) = finish (evs a).
Proof. reflexivity. Qed.
Lemma ev_ho a b : ev (HO (spine a) (spine b)) = upd_ordered (evs a) (evs b).
Proof. reflexivity. Qed.
Lemma evs_hs s : evs [HS s] = fnv_str s.
Proof. apply evs_single. Qed.

(* for every FNV, hashUpdateOrdered and hashFinishUnordered: the hash is a function of the normal form *)
Lemma hash_factors_l : forall v, H v = evs (canon tb v).
Proof.
  apply gv_ind2.
  - intros s. simpl. rewrite evs_single. reflexivity.
  - intros w u. simpl. rewrite evs_single. reflexivity.
  - intros z b. simpl. rewrite evs_single. reflexivity.
  - intros z IH. exact IH.
  - intros x IH. exact IH.
  - intros n l IH. rewrite canon_slice, evs_xnorm, hash_slice.
    induction IH as [|x l Hx _ IHl]; [reflexivity|]. cbn [fold_left map concat].
    rewrite fold_xor_shift, evs_app, IHl, Hx, Z.lxor_0_l. reflexivity.
  - intros n l IH. rewrite canon_map, evs_single, ev_hf, evs_xnorm, hash_map. f_equal.
    induction IH as [|kv l [Hk Hv] _ IHl]; [reflexivity|]. cbn [fold_left map].
    rewrite (fold_xor_shift2 (fun kv => upd_ordered (H (fst kv)) (H (snd kv)))), evs_cons, IHl, Z.lxor_0_l.
    change (ev (entry tb kv)) with (upd_ordered (evs (canon tb (fst kv))) (evs (canon tb (snd kv)))).
    rewrite Hk, Hv. reflexivity.
  - intros ty fs IH. rewrite canon_struct, hash_struct.
    assert (G : forall hn hs, hn = evs hs ->
      fold_left (fun h f => if skipped tb ty f then h else finish (Z.lxor h (upd_ordered (fnv_str (fst f)) (H (snd f))))) fs hn
      = evs (fold_left (step tb ty) fs hs)).
    { induction IH as [|f fs Hf _ IHfs]; intros hn hs E; [exact E|]. cbn [fold_left].
      apply IHfs. unfold step. destruct (skipped tb ty f); [exact E|].
      rewrite evs_single, ev_hf, evs_xins, ev_ho, evs_hs, <- Hf, E. f_equal. apply Z.lxor_comm. }
    apply G. rewrite evs_hs. reflexivity.
Qed.

(* HASH INJECTIVITY ASSUMPTION. FNV is not injective; on the values compared the property needs that distinct
   normal forms evaluate to distinct numbers. *)
Definition collision_free (a b : gv) : Prop := evs (canon tb a) = evs (canon tb b) -> canon tb a = canon tb b.

Lemma same_canon_same_hash a b : canon tb a = canon tb b -> H a = H b.
Proof. intros E. rewrite !hash_factors_l, E. reflexivity. Qed.

Lemma diff_canon_diff_hash a b : collision_free a b -> canon tb a <> canon tb b -> H a <> H b.
Proof. intros Hc Hne E. apply Hne, Hc. rewrite <- !hash_factors_l. exact E. Qed.

End Factor.
