(* C15 — proofs about the symbolic hash (C15/Model.v): the term order is a strict total order, XOR normal
   forms are unique, the hash is invariant under reordering and under edits of fields the walker skips. *)
From Coq Require Import Lia Permutation OrderedTypeEx.
From KV Require Import C15.Model.
Open Scope Z_scope.

(* ---------------------------------------------------------------- comparisons *)
Lemma scmp_eq s t : String.compare s t = Eq <-> s = t.
Proof. exact (String_as_OT.cmp_eq s t). Qed.
Lemma scmp_antisym s t : String.compare t s = CompOpp (String.compare s t).
Proof. exact (String_as_OT.cmp_antisym t s). Qed.
Lemma scmp_trans a b c : String.compare a b = Lt -> String.compare b c = Lt -> String.compare a c = Lt.
Proof.
  intros H1 H2. apply String_as_OT.cmp_lt. apply String_as_OT.cmp_lt in H1, H2.
  exact (String_as_OT.lt_trans _ _ _ H1 H2).
Qed.

Lemma lexc_eq c d : lexc c d = Eq <-> c = Eq /\ d = Eq.
Proof. destruct c; simpl; intuition (try discriminate; auto). Qed.
Lemma lexc_opp c d : CompOpp (lexc c d) = lexc (CompOpp c) (CompOpp d).
Proof. destruct c; reflexivity. Qed.
Lemma lexc_lt c d : lexc c d = Lt <-> c = Lt \/ (c = Eq /\ d = Lt).
Proof. destruct c; simpl; intuition (try discriminate; auto). Qed.

Lemma cmp_eq a : forall b, cmp a b = Eq -> a = b.
Proof.
  induction a as [s|w u|s|a1 IH1 a2 IH2|a1 IH1|a1 IH1 a2 IH2|]; intros b; destruct b; simpl; try discriminate.
  - intros H. apply scmp_eq in H. congruence.
  - intros H. apply lexc_eq in H as [H1 H2]. apply Z.compare_eq_iff in H1, H2. congruence.
  - intros H. apply scmp_eq in H. congruence.
  - intros H. apply lexc_eq in H as [H1 H2]. f_equal; auto.
  - intros H. f_equal; auto.
  - intros H. apply lexc_eq in H as [H1 H2]. f_equal; auto.
  - reflexivity.
Qed.

Lemma cmp_refl a : cmp a a = Eq.
Proof.
  induction a; simpl; rewrite ?IHa1, ?IHa2, ?IHa, ?Z.compare_refl; try reflexivity;
    apply scmp_eq; reflexivity.
Qed.

Lemma cmp_antisym a : forall b, cmp b a = CompOpp (cmp a b).
Proof.
  induction a as [s|w u|s|a1 IH1 a2 IH2|a1 IH1|a1 IH1 a2 IH2|]; intros b; destruct b; simpl; try reflexivity.
  - apply scmp_antisym.
  - rewrite lexc_opp, <- !Z.compare_antisym. reflexivity.
  - apply scmp_antisym.
  - rewrite lexc_opp, <- IH1, <- IH2. reflexivity.
  - apply IH1.
  - rewrite lexc_opp, <- IH1, <- IH2. reflexivity.
Qed.

Lemma zcmp_trans a b c : (a ?= b) = Lt -> (b ?= c) = Lt -> (a ?= c) = Lt.
Proof. rewrite !Z.compare_lt_iff. lia. Qed.

(* lexicographic transitivity from component facts *)
Lemma lexc_trans (c1 d1 c2 d2 c3 d3 : comparison) :
  (c1 = Lt -> c2 = Lt -> c3 = Lt) -> (c1 = Eq -> c3 = c2) -> (c2 = Eq -> c3 = c1) ->
  (c1 = Eq -> c2 = Eq -> d1 = Lt -> d2 = Lt -> d3 = Lt) ->
  lexc c1 d1 = Lt -> lexc c2 d2 = Lt -> lexc c3 d3 = Lt.
Proof.
  intros Hll Hel Hle Hee H1 H2. apply lexc_lt in H1, H2. apply lexc_lt.
  destruct H1 as [H1|[H1 H1']], H2 as [H2|[H2 H2']].
  - left. auto.
  - left. rewrite (Hle H2). exact H1.
  - left. rewrite (Hel H1). exact H2.
  - right. split; [rewrite (Hel H1); exact H2|auto].
Qed.

Lemma cmp_trans a : forall b c, cmp a b = Lt -> cmp b c = Lt -> cmp a c = Lt.
Proof.
  induction a as [s|w u|s|a1 IH1 a2 IH2|a1 IH1|a1 IH1 a2 IH2|]; intros b c; destruct b; simpl; try discriminate;
    destruct c; simpl; try discriminate; try reflexivity.
  - apply scmp_trans.
  - apply lexc_trans.
    + apply zcmp_trans.
    + intros E. apply Z.compare_eq_iff in E. subst. reflexivity.
    + intros E. apply Z.compare_eq_iff in E. subst. reflexivity.
    + intros _ _. apply zcmp_trans.
  - apply scmp_trans.
  - apply lexc_trans.
    + apply IH1.
    + intros E. apply cmp_eq in E. subst. reflexivity.
    + intros E. apply cmp_eq in E. subst. reflexivity.
    + intros _ _. apply IH2.
  - apply IH1.
  - apply lexc_trans.
    + apply IH1.
    + intros E. apply cmp_eq in E. subst. reflexivity.
    + intros E. apply cmp_eq in E. subst. reflexivity.
    + intros _ _. apply IH2.
Qed.

Lemma cmp_gt_lt a b : cmp a b = Gt -> cmp b a = Lt.
Proof. intros H. rewrite cmp_antisym, H. reflexivity. Qed.

Lemma ht_eqb_eq a b : ht_eqb a b = true <-> a = b.
Proof.
  unfold ht_eqb. split.
  - destruct (cmp a b) eqn:E; try discriminate. intros _. apply cmp_eq, E.
  - intros ->. rewrite cmp_refl. reflexivity.
Qed.
Lemma ht_eqb_refl a : ht_eqb a a = true.
Proof. apply ht_eqb_eq. reflexivity. Qed.
Lemma ht_eqb_false a b : ht_eqb a b = false <-> a <> b.
Proof.
  split.
  - intros H E. apply ht_eqb_eq in E. congruence.
  - intros H. destruct (ht_eqb a b) eqn:E; [apply ht_eqb_eq in E; contradiction|reflexivity].
Qed.
Lemma cmp_lt_neq a b : cmp a b = Lt -> a <> b.
Proof. intros H ->. rewrite cmp_refl in H. discriminate. Qed.

Lemma hts_eqb_eq a : forall b, hts_eqb a b = true <-> a = b.
Proof.
  induction a as [|x a IH]; intros [|y b]; simpl; split; try discriminate; try reflexivity.
  - intros H. apply andb_prop in H as [H1 H2]. apply ht_eqb_eq in H1. apply IH in H2. congruence.
  - intros E. inversion E; subst. rewrite ht_eqb_refl. apply IH. reflexivity.
Qed.

(* ---------------------------------------------------------------- XOR normal forms *)
Fixpoint ssorted (l : list ht) : Prop :=
  match l with
  | [] => True
  | x :: t => Forall (fun y => cmp x y = Lt) t /\ ssorted t
  end.

Definition memb (z : ht) (l : list ht) : bool := existsb (ht_eqb z) l.

Lemma lt_all_notmem x t : Forall (fun y => cmp x y = Lt) t -> memb x t = false.
Proof.
  induction 1 as [|y t Hy _ IH]; simpl; [reflexivity|].
  rewrite IH, orb_false_r. apply ht_eqb_false, cmp_lt_neq, Hy.
Qed.

Lemma xins_weak_in z x l : List.In z (xins x l) -> z = x \/ List.In z l.
Proof.
  induction l as [|y t IH]; simpl.
  - intros [E|[]]. left. symmetry. exact E.
  - destruct (cmp x y); simpl.
    + intros H. right. right. exact H.
    + intros [E|H]; [left; symmetry; exact E|right; exact H].
    + intros [E|H]; [right; left; exact E|]. destruct (IH H); [left|right; right]; assumption.
Qed.

Lemma xins_sorted x l : ssorted l -> ssorted (xins x l).
Proof.
  induction l as [|y t IH]; simpl.
  - intros _. split; [constructor|exact I].
  - intros [Hy Ht]. destruct (cmp x y) eqn:E.
    + exact Ht.
    + split; [|split; assumption]. constructor; [exact E|].
      eapply Forall_impl; [|exact Hy]. intros z Hz. exact (cmp_trans _ _ _ E Hz).
    + simpl. split; [|apply IH, Ht].
      apply Forall_forall. intros z Hz. apply xins_weak_in in Hz as [->|Hz].
      * apply cmp_gt_lt, E.
      * rewrite Forall_forall in Hy. apply Hy, Hz.
Qed.

Lemma xorb_false_l b : xorb false b = b.
Proof. destruct b; reflexivity. Qed.

Lemma memb_cons z y t : memb z (y :: t) = ht_eqb z y || memb z t.
Proof. reflexivity. Qed.

Lemma memb_xins z x l : ssorted l -> memb z (xins x l) = xorb (ht_eqb z x) (memb z l).
Proof.
  induction l as [|y t IH].
  - intros _. cbn. destruct (ht_eqb z x); reflexivity.
  - intros [Hy Ht]. cbn [xins]. destruct (cmp x y) eqn:E.
    + apply cmp_eq in E. subst y. rewrite memb_cons.
      destruct (ht_eqb z x) eqn:Ez.
      * apply ht_eqb_eq in Ez. subst z. rewrite (lt_all_notmem _ _ Hy). reflexivity.
      * rewrite xorb_false_l. reflexivity.
    + rewrite (memb_cons z x). destruct (ht_eqb z x) eqn:Ez.
      * apply ht_eqb_eq in Ez. subst z.
        assert (Hn : memb x (y :: t) = false).
        { apply lt_all_notmem. constructor; [exact E|].
          eapply Forall_impl; [|exact Hy]. intros w Hw. exact (cmp_trans _ _ _ E Hw). }
        rewrite Hn. reflexivity.
      * rewrite xorb_false_l. reflexivity.
    + rewrite (memb_cons z y (xins x t)), (IH Ht), (memb_cons z y t). destruct (ht_eqb z y) eqn:Ezy.
      * apply ht_eqb_eq in Ezy. subst z.
        assert (Hne : ht_eqb y x = false).
        { apply ht_eqb_false. intros ->. rewrite cmp_refl in E. discriminate. }
        rewrite Hne. reflexivity.
      * reflexivity.
Qed.

Lemma memb_In z l : memb z l = true <-> List.In z l.
Proof.
  unfold memb. rewrite existsb_exists. split.
  - intros (y & Hy & E). apply ht_eqb_eq in E. subst. exact Hy.
  - intros H. exists z. split; [exact H|apply ht_eqb_refl].
Qed.

Lemma ssorted_ext a : forall b, ssorted a -> ssorted b -> (forall z, memb z a = memb z b) -> a = b.
Proof.
  induction a as [|x a IH]; intros [|y b]; simpl.
  - reflexivity.
  - intros _ _ H. specialize (H y). rewrite ht_eqb_refl in H. discriminate.
  - intros _ _ H. specialize (H x). rewrite ht_eqb_refl in H. discriminate.
  - intros [Hx Ha] [Hy Hb] H.
    assert (E : x = y).
    { pose proof (H x) as H1. pose proof (H y) as H2. rewrite ht_eqb_refl in H1, H2. simpl in H1, H2.
      destruct (ht_eqb x y) eqn:Exy; [apply ht_eqb_eq, Exy|]. simpl in H1.
      destruct (ht_eqb y x) eqn:Eyx; [symmetry; apply ht_eqb_eq, Eyx|]. simpl in H2.
      symmetry in H1. apply memb_In in H1, H2.
      rewrite Forall_forall in Hx, Hy. pose proof (Hx _ H2) as L1. pose proof (Hy _ H1) as L2.
      pose proof (cmp_trans _ _ _ L1 L2) as L. rewrite cmp_refl in L. discriminate. }
    subst y. f_equal. apply IH; [exact Ha|exact Hb|].
    intros z. specialize (H z). destruct (ht_eqb z x) eqn:Ez; [|exact H].
    apply ht_eqb_eq in Ez. subst z. rewrite (lt_all_notmem _ _ Hx), (lt_all_notmem _ _ Hy). reflexivity.
Qed.

Lemma xins_comm x y l : ssorted l -> xins x (xins y l) = xins y (xins x l).
Proof.
  intros Hl. apply ssorted_ext; try (apply xins_sorted, xins_sorted, Hl).
  intros z. rewrite !memb_xins by (try apply xins_sorted; exact Hl).
  destruct (ht_eqb z x), (ht_eqb z y), (memb z l); reflexivity.
Qed.

Lemma xnorm_sorted l : ssorted (xnorm l).
Proof. induction l as [|x l IH]; simpl; [exact I|apply xins_sorted, IH]. Qed.

Lemma xnorm_perm l l' : Permutation l l' -> xnorm l = xnorm l'.
Proof.
  induction 1 as [|x l l' _ IH|x y l|l l' l'' _ IH1 _ IH2]; simpl.
  - reflexivity.
  - rewrite IH. reflexivity.
  - apply xins_comm, xnorm_sorted.
  - congruence.
Qed.

(* membership in the XOR of a list = odd number of occurrences *)
Fixpoint occ (z : ht) (l : list ht) : bool :=
  match l with [] => false | x :: t => xorb (ht_eqb z x) (occ z t) end.
Lemma memb_xnorm z l : memb z (xnorm l) = occ z l.
Proof.
  induction l as [|x l IH]; simpl; [reflexivity|].
  rewrite memb_xins by apply xnorm_sorted. rewrite IH. reflexivity.
Qed.

(* two lists have the same XOR iff every term has the same parity in both *)
Lemma xnorm_eq_iff l l' : xnorm l = xnorm l' <-> forall z, occ z l = occ z l'.
Proof.
  split.
  - intros E z. rewrite <- !memb_xnorm, E. reflexivity.
  - intros H. apply ssorted_ext; try apply xnorm_sorted. intros z. rewrite !memb_xnorm. apply H.
Qed.

Lemma occ_nodup z l : NoDup l -> occ z l = memb z l.
Proof.
  induction 1 as [|x l Hx _ IH]; [reflexivity|]. cbn [occ]. rewrite IH, memb_cons.
  destruct (ht_eqb z x) eqn:E; [|apply xorb_false_l].
  apply ht_eqb_eq in E. subst z.
  destruct (memb x l) eqn:M; [apply memb_In in M; contradiction|reflexivity].
Qed.

(* without repeated elements the XOR determines the set *)
Lemma xnorm_nodup_eq l l' : NoDup l -> NoDup l' ->
  (xnorm l = xnorm l' <-> forall z, List.In z l <-> List.In z l').
Proof.
  intros N N'. rewrite xnorm_eq_iff. split.
  - intros H z. specialize (H z). rewrite !occ_nodup in H by assumption. rewrite <- !memb_In, H. reflexivity.
  - intros H z. rewrite !occ_nodup by assumption.
    destruct (memb z l) eqn:A, (memb z l') eqn:B; try reflexivity.
    + apply memb_In, H, memb_In in A. congruence.
    + apply memb_In, H, memb_In in B. congruence.
Qed.

(* ... and a repeated element cancels: the defect behind [slice_detect_refuted] *)
Lemma xnorm_cancel x l : xnorm (x :: x :: l) = xnorm l.
Proof.
  apply xnorm_eq_iff. intros z. simpl. destruct (ht_eqb z x), (occ z l); reflexivity.
Qed.

(* ---------------------------------------------------------------- reordering *)
Section Reorder.
Variable tb : table.

(* b is a with slice elements and map entries permuted, anywhere in the value *)
Inductive reorder : gv -> gv -> Prop :=
| ro_refl v : reorder v v
| ro_trans a b c : reorder a b -> reorder b c -> reorder a c
| ro_nil a b : reorder a b -> reorder (GNil a) (GNil b)
| ro_ptr a b : reorder a b -> reorder (GPtr a) (GPtr b)
| ro_slice_perm n l l' : Permutation l l' -> reorder (GSlice n l) (GSlice n l')
| ro_slice_cong n l l' : reorder_list l l' -> reorder (GSlice n l) (GSlice n l')
| ro_map_perm n l l' : Permutation l l' -> reorder (GMap n l) (GMap n l')
| ro_map_cong n l l' : reorder_pairs l l' -> reorder (GMap n l) (GMap n l')
| ro_struct ty fs fs' : reorder_fields fs fs' -> reorder (GStruct ty fs) (GStruct ty fs')
with reorder_list : list gv -> list gv -> Prop :=
| rl_nil : reorder_list [] []
| rl_cons a b l l' : reorder a b -> reorder_list l l' -> reorder_list (a :: l) (b :: l')
with reorder_pairs : list (gv * gv) -> list (gv * gv) -> Prop :=
| rp_nil : reorder_pairs [] []
| rp_cons k k' v v' l l' : reorder k k' -> reorder v v' -> reorder_pairs l l' ->
    reorder_pairs ((k, v) :: l) ((k', v') :: l')
with reorder_fields : list (string * gv) -> list (string * gv) -> Prop :=
| rf_nil : reorder_fields [] []
| rf_cons n a b fs fs' : reorder a b -> reorder_fields fs fs' -> reorder_fields ((n, a) :: fs) ((n, b) :: fs').

Scheme reorder_mut := Minimality for reorder Sort Prop
  with reorder_list_mut := Minimality for reorder_list Sort Prop
  with reorder_pairs_mut := Minimality for reorder_pairs Sort Prop
  with reorder_fields_mut := Minimality for reorder_fields Sort Prop.
Combined Scheme reorder_all from reorder_mut, reorder_list_mut, reorder_pairs_mut, reorder_fields_mut.

Definition step (ty : string) (h : list ht) (f : string * gv) : list ht :=
  if skipped tb ty f then h
  else [HF (spine (xins (HO (spine [HS (fst f)]) (spine (canon tb (snd f)))) h))].

Lemma canon_struct ty fs : canon tb (GStruct ty fs) = fold_left (step ty) fs [HS ty].
Proof. reflexivity. Qed.

Definition entry (kv : gv * gv) : ht := HO (spine (canon tb (fst kv))) (spine (canon tb (snd kv))).
Lemma canon_map n l : canon tb (GMap n l) = [HF (spine (xnorm (map entry l)))].
Proof. reflexivity. Qed.
Lemma canon_slice n l : canon tb (GSlice n l) = xnorm (concat (map (canon tb) l)).
Proof. simpl. rewrite flat_map_concat_map. reflexivity. Qed.

Lemma reorder_sound_all :
  (forall a b, reorder a b -> canon tb a = canon tb b /\ is_zero a = is_zero b) /\
  (forall l l', reorder_list l l' -> map (canon tb) l = map (canon tb) l') /\
  (forall l l', reorder_pairs l l' -> map entry l = map entry l') /\
  (forall fs fs', reorder_fields fs fs' ->
     (forall ty h, fold_left (step ty) fs h = fold_left (step ty) fs' h) /\
     forallb (fun f => is_zero (snd f)) fs = forallb (fun f => is_zero (snd f)) fs').
Proof.
  apply reorder_all.
  - intros v. split; reflexivity.
  - intros a b c _ [H1 H2] _ [H3 H4]. split; congruence.
  - intros a b _ [H1 H2]. split; [exact H1|reflexivity].
  - intros a b _ [H1 H2]. split; [exact H1|reflexivity].
  - intros n l l' HP. split; [|reflexivity]. rewrite !canon_slice. apply xnorm_perm.
    rewrite <- !flat_map_concat_map. apply Permutation_flat_map, HP.
  - intros n l l' _ H. split; [|reflexivity]. rewrite !canon_slice, H. reflexivity.
  - intros n l l' HP. split; [|reflexivity]. rewrite !canon_map. do 3 f_equal. apply xnorm_perm, Permutation_map, HP.
  - intros n l l' _ H. split; [|reflexivity]. rewrite !canon_map, H. reflexivity.
  - intros ty fs fs' _ [H1 H2]. split; [rewrite !canon_struct; apply H1|exact H2].
  - reflexivity.
  - intros a b l l' _ [H1 _] _ H2. simpl. rewrite H1, H2. reflexivity.
  - reflexivity.
  - intros k k' v v' l l' _ [H1 _] _ [H2 _] _ H3. simpl. unfold entry at 1 3. simpl. rewrite H1, H2, H3. reflexivity.
  - split; reflexivity.
  - intros n a b fs fs' _ [H1 H2] _ [H3 H4]. split.
    + intros ty h. simpl. rewrite <- H3. f_equal. unfold step, skipped. simpl. rewrite H1, H2. reflexivity.
    + simpl. rewrite H2, H4. reflexivity.
Qed.

Lemma reorder_fields_refl fs : reorder_fields fs fs.
Proof. induction fs as [|[n v] fs IH]; constructor; [apply ro_refl|exact IH]. Qed.

Lemma canon_perm_invariant_l a b : reorder a b -> canon tb a = canon tb b.
Proof. intros H. apply (proj1 reorder_sound_all a b H). Qed.

(* ---------------------------------------------------------------- edits the walker does not see *)
Lemma fold_step_app ty pre post h :
  fold_left (step ty) (pre ++ post) h = fold_left (step ty) post (fold_left (step ty) pre h).
Proof. apply fold_left_app. Qed.

(* inside one struct, the value of a field that is unexported or tagged ignore does not reach the hash *)
Lemma struct_ignores ty pre post fn v v' : attr_of tb ty fn <> Hashed ->
  canon tb (GStruct ty (pre ++ (fn, v) :: post)) = canon tb (GStruct ty (pre ++ (fn, v') :: post)).
Proof.
  intros Hat. rewrite !canon_struct, !fold_step_app. simpl. f_equal.
  unfold step, skipped. simpl. destruct (attr_of tb ty fn); try contradiction; reflexivity.
Qed.

(* b is a with one skipped field changed somewhere inside; at the struct that owns the field its
   zero-ness must not flip (IgnoreZeroValue looks at ignored fields too, see [ignored_edit_unguarded_refuted]) *)
Inductive ign_edit : gv -> gv -> Prop :=
| ie_here ty pre post fn v v' :
    attr_of tb ty fn <> Hashed ->
    is_zero (GStruct ty (pre ++ (fn, v) :: post)) = is_zero (GStruct ty (pre ++ (fn, v') :: post)) ->
    ign_edit (GStruct ty (pre ++ (fn, v) :: post)) (GStruct ty (pre ++ (fn, v') :: post))
| ie_field ty pre post fn a b :
    ign_edit a b -> ign_edit (GStruct ty (pre ++ (fn, a) :: post)) (GStruct ty (pre ++ (fn, b) :: post))
| ie_ptr a b : ign_edit a b -> ign_edit (GPtr a) (GPtr b)
| ie_elem n pre post a b : ign_edit a b -> ign_edit (GSlice n (pre ++ a :: post)) (GSlice n (pre ++ b :: post))
| ie_value n pre post k a b : ign_edit a b -> ign_edit (GMap n (pre ++ (k, a) :: post)) (GMap n (pre ++ (k, b) :: post)).

Lemma forallb_zero_app (pre post : list (string * gv)) :
  forallb (fun f => is_zero (snd f)) (pre ++ post) =
  forallb (fun f => is_zero (snd f)) pre && forallb (fun f => is_zero (snd f)) post.
Proof. apply forallb_app. Qed.

Lemma ign_edit_sound a b : ign_edit a b -> canon tb a = canon tb b /\ is_zero a = is_zero b.
Proof.
  induction 1 as [ty pre post fn v v' Hat Hz|ty pre post fn a b _ [IH1 IH2]|a b _ [IH1 IH2]
                 |n pre post a b _ [IH1 IH2]|n pre post k a b _ [IH1 IH2]].
  - split; [apply struct_ignores, Hat|exact Hz].
  - split.
    + rewrite !canon_struct, !fold_step_app. simpl. f_equal. unfold step, skipped. simpl. rewrite IH1, IH2. reflexivity.
    + simpl. rewrite !forallb_zero_app. simpl. rewrite IH2. reflexivity.
  - split; [exact IH1|reflexivity].
  - split; [|reflexivity]. rewrite !canon_slice, !map_app. simpl. rewrite IH1. reflexivity.
  - split; [|reflexivity]. rewrite !canon_map, !map_app. simpl. unfold entry at 2 5. simpl. rewrite IH1. reflexivity.
Qed.

(* the zero-ness guard is automatic when another field of the struct is non-zero *)
Lemma zero_guard_other ty pre post fn v v' :
  forallb (fun f => is_zero (snd f)) pre && forallb (fun f => is_zero (snd f)) post = false ->
  is_zero (GStruct ty (pre ++ (fn, v) :: post)) = is_zero (GStruct ty (pre ++ (fn, v') :: post)).
Proof.
  intros H. simpl. rewrite !forallb_zero_app. simpl.
  destruct (forallb (fun f => is_zero (snd f)) pre); simpl in *; [|reflexivity].
  rewrite H, !andb_false_r. reflexivity.
Qed.

End Reorder.
